#!/bin/bash
# runs every thorough check once, logging exit code and wall time per property
cd "$(dirname "$0")"
for c in ${@:-C12 C02 C03 C09 C18 C19 C20 C06 C07 C05 C01 C13 C14 C15 C10 C11 C16 C17 C04}; do
  s=$(date +%s)
  out=$(./check $c --tier thorough 2>&1); rc=$?
  e=$(date +%s)
  echo "== $c thorough exit=$rc wall=$((e-s))s"
  echo "$out" | grep -E "INCONCLUSIVE|^VIOLATION|^KNOWN-FINDING|TRUNCATED|^check " | cut -c1-200 | head -8
done
