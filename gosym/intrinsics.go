package main

import (
	"fmt"
	"go/types"
	"strings"

	"golang.org/x/tools/go/ssa"
)

func (e *Exec) lookupIntrinsic(fn *ssa.Function) intrinsic {
	if fn.Pkg != nil && fn.Pkg.Pkg.Path() == e.P.vPkgPath {
		if h, ok := vIntrinsics[fn.Name()]; ok {
			return h
		}
		return nil
	}
	if fn.Pkg != nil && fn.Pkg.Pkg.Path() == modPath+"/zz_verif/m" {
		switch fn.Name() {
		case "AnyLen":
			return func(e *Exec, fr *Frame, fn *ssa.Function, a []Value) (Value, int) {
				s := a[0].(IfaceVal).V.(SliceVal)
				if s.Back == nil {
					return done(konst(0))
				}
				return done(s.Len)
			}
		case "AsTarget":
			return func(e *Exec, fr *Frame, fn *ssa.Function, a []Value) (Value, int) {
				err := a[0].(IfaceVal)
				tgt := a[1].(IfaceVal)
				pt, ok := tgt.T.(*types.Pointer)
				if !ok || err.T == nil {
					return done(tFalse)
				}
				cell := tgt.V.(Ptr).C
				if cell == nil {
					e.goPanic("errors: target must be a non-nil pointer")
				}
				if it, isIface := pt.Elem().Underlying().(*types.Interface); isIface {
					if types.Implements(err.T, it) {
						e.store(cell, err)
						return done(tTrue)
					}
					return done(tFalse)
				}
				if sameType(err.T, pt.Elem()) {
					e.store(cell, err.V)
					return done(tTrue)
				}
				return done(tFalse)
			}
		case "AnySwap":
			return func(e *Exec, fr *Frame, fn *ssa.Function, a []Value) (Value, int) {
				s := a[0].(IfaceVal).V.(SliceVal)
				off := int(e.concretize(s.Off))
				i, j := int(e.concretize(termArg(a[1]))), int(e.concretize(termArg(a[2])))
				ci, cj := e.cellAt(s.Back, off+i), e.cellAt(s.Back, off+j)
				vi, vj := e.load(ci), e.load(cj)
				e.store(ci, vj)
				e.store(cj, vi)
				return done(nil)
			}
		}
	}
	name := fn.String()
	if h, ok := intrinsics[name]; ok {
		return h
	}
	return nil
}

func done(v Value) (Value, int) { return v, stDone }

func argStr(v Value) string {
	s, ok := v.(StrVal).Concrete()
	if !ok {
		unsup("symbolic string used as a harness label")
	}
	return s
}

func (e *Exec) freshName(base string) string {
	n := e.nameCnt[base]
	e.nameCnt[base] = n + 1
	if n == 0 {
		return base
	}
	return fmt.Sprintf("%s#%d", base, n)
}

func (e *Exec) freshVar(base string, w int) *Term {
	t := Var(e.freshName(base), w)
	e.vars = append(e.vars, t)
	return t
}

var vIntrinsics map[string]intrinsic

func init() {
	mkInt := func(w int) intrinsic {
		return func(e *Exec, fr *Frame, fn *ssa.Function, a []Value) (Value, int) {
			return done(e.freshVar(argStr(a[0]), w))
		}
	}
	vIntrinsics = map[string]intrinsic{
		"U8":  mkInt(8),
		"U16": mkInt(16),
		"U32": mkInt(32),
		"U64": mkInt(64),
		"I64": mkInt(64),
		"I32": mkInt(32),
		"Int": mkInt(64),
		"Bool": func(e *Exec, fr *Frame, fn *ssa.Function, a []Value) (Value, int) {
			return done(e.freshVar(argStr(a[0]), 0))
		},
		"Param": func(e *Exec, fr *Frame, fn *ssa.Function, a []Value) (Value, int) {
			if v, ok := e.X.cfg.Params[argStr(a[0])]; ok {
				return done(konst(int(v)))
			}
			return done(a[1])
		},
		"Symbolic": func(e *Exec, fr *Frame, fn *ssa.Function, a []Value) (Value, int) { return done(tTrue) },
		"Bytes": func(e *Exec, fr *Frame, fn *ssa.Function, a []Value) (Value, int) {
			name := e.freshName(argStr(a[0]))
			n := int(e.concretize(a[1].(*Term)))
			b := e.newBacking(types.Typ[types.Uint8], n)
			for i := 0; i < n; i++ {
				t := Var(fmt.Sprintf("%s[%d]", name, i), 8)
				e.vars = append(e.vars, t)
				e.cellAt(b, i).V = t
			}
			return done(e.mkSlice(b, 0, n, n))
		},
		"String": func(e *Exec, fr *Frame, fn *ssa.Function, a []Value) (Value, int) {
			name := e.freshName(argStr(a[0]))
			n := int(e.concretize(a[1].(*Term)))
			bs := make([]*Term, n)
			for i := range bs {
				bs[i] = Var(fmt.Sprintf("%s[%d]", name, i), 8)
				e.vars = append(e.vars, bs[i])
			}
			return done(StrVal{bs})
		},
		"Choose": func(e *Exec, fr *Frame, fn *ssa.Function, a []Value) (Value, int) {
			k := int(e.concretize(a[1].(*Term)))
			t := e.freshVar(argStr(a[0]), 64)
			if k <= 0 {
				e.endPath("infeasible", "Choose with k<=0")
			}
			e.assume(CmpBV(OpULt, t, konst(k)))
			return done(konst(int(e.concretize(t))))
		},
		"Assume": func(e *Exec, fr *Frame, fn *ssa.Function, a []Value) (Value, int) {
			e.assume(a[0].(*Term))
			return done(nil)
		},
		"Assert": func(e *Exec, fr *Frame, fn *ssa.Function, a []Value) (Value, int) {
			e.assert(a[0].(*Term), argStr(a[1]))
			return done(nil)
		},
		"Cover": func(e *Exec, fr *Frame, fn *ssa.Function, a []Value) (Value, int) {
			e.covers[argStr(a[0])] = true
			return done(nil)
		},
		"Observe": func(e *Exec, fr *Frame, fn *ssa.Function, a []Value) (Value, int) {
			iv := a[1].(IfaceVal)
			e.observes = append(e.observes, observed{argStr(a[0]), iv.V})
			return done(nil)
		},
		"Goroutines": func(e *Exec, fr *Frame, fn *ssa.Function, a []Value) (Value, int) {
			n := 0
			for _, g := range e.gs {
				if !g.done && g != e.cur {
					n++
				}
			}
			return done(konst(n))
		},
		"Jitter": func(e *Exec, fr *Frame, fn *ssa.Function, a []Value) (Value, int) { return done(nil) },
		"HBRelease": func(e *Exec, fr *Frame, fn *ssa.Function, a []Value) (Value, int) {
			e.hbRelease(hbKey(a[0]))
			return done(nil)
		},
		"HBAcquire": func(e *Exec, fr *Frame, fn *ssa.Function, a []Value) (Value, int) {
			e.hbAcquire(hbKey(a[0]))
			return done(nil)
		},
		"Yield": func(e *Exec, fr *Frame, fn *ssa.Function, a []Value) (Value, int) {
			// let every other runnable goroutine run until it blocks
			g := e.cur
			if g.yielded {
				g.yielded = false
				return done(nil)
			}
			g.yielded, g.lowPrio = true, true
			g.blocked = func() bool { return true }
			g.why = "yield"
			return nil, stBlocked
		},
		"AllocLimit": func(e *Exec, fr *Frame, fn *ssa.Function, a []Value) (Value, int) {
			e.allocLimit = int(e.concretize(a[0].(*Term)))
			return done(nil)
		},
		"Overlaps": func(e *Exec, fr *Frame, fn *ssa.Function, a []Value) (Value, int) {
			x, y := a[0].(SliceVal), a[1].(SliceVal)
			if x.Back == nil || y.Back == nil || x.Back != y.Back {
				return done(tFalse)
			}
			z := konst(0)
			ne := And(Not(Eq(x.Len, z)), Not(Eq(y.Len, z)))
			return done(And(ne, And(CmpBV(OpSLt, x.Off, BinBV(OpAdd, y.Off, y.Len)), CmpBV(OpSLt, y.Off, BinBV(OpAdd, x.Off, x.Len)))))
		},
		"Follows": func(e *Exec, fr *Frame, fn *ssa.Function, a []Value) (Value, int) {
			x, y := a[0].(SliceVal), a[1].(SliceVal)
			if x.Back == nil || y.Back == nil || x.Back != y.Back {
				return done(tFalse)
			}
			return done(Or(Eq(y.Len, konst(0)), Eq(BinBV(OpAdd, x.Off, x.Len), y.Off)))
		},
		"SameStart": func(e *Exec, fr *Frame, fn *ssa.Function, a []Value) (Value, int) {
			x, y := a[0].(SliceVal), a[1].(SliceVal)
			if x.Back == nil || y.Back == nil || x.Back != y.Back {
				return done(tFalse)
			}
			return done(Eq(x.Off, y.Off))
		},
		"And": func(e *Exec, fr *Frame, fn *ssa.Function, a []Value) (Value, int) {
			r := tTrue
			for _, t := range e.sliceTerms(a[0].(SliceVal)) {
				r = And(r, t)
			}
			return done(r)
		},
		"Or": func(e *Exec, fr *Frame, fn *ssa.Function, a []Value) (Value, int) {
			r := tFalse
			for _, t := range e.sliceTerms(a[0].(SliceVal)) {
				r = Or(r, t)
			}
			return done(r)
		},
		"Implies": func(e *Exec, fr *Frame, fn *ssa.Function, a []Value) (Value, int) {
			return done(Or(Not(a[0].(*Term)), a[1].(*Term)))
		},
		"SameBacking": func(e *Exec, fr *Frame, fn *ssa.Function, a []Value) (Value, int) {
			x, y := a[0].(SliceVal), a[1].(SliceVal)
			return done(Bool(x.Back != nil && x.Back == y.Back))
		},
	}
}

// assume adds c to the path condition; an infeasible assumption ends the path.
func (e *Exec) assume(c *Term) {
	if c.IsTrue() {
		return
	}
	if c.IsFalse() {
		e.endPath("infeasible", "assumption false")
	}
	if e.pos < len(e.prefix) {
		e.addPC(c)
		return
	}
	if e.modelOK && e.evalBool(c) {
		e.addPC(c)
		return
	}
	r, m := e.S.Check(c, true)
	switch r {
	case Unsat:
		e.endPath("infeasible", "assumption unsatisfiable")
	case Unknown:
		e.X.noteUnknown("assumption")
		e.addPC(c)
		e.modelOK = false
	case Sat:
		e.pc = append(e.pc, c)
		e.S.Assert(c)
		if e.modelSatisfiesPC(m) {
			e.model, e.modelOK = m, true
		} else {
			e.X.noteUnknown("solver model does not satisfy the path condition (assume)")
			e.modelOK = false
		}
	}
}

// assert checks that c holds for every value satisfying the path condition.
func (e *Exec) assert(c *Term, msg string) {
	if c.IsTrue() {
		return
	}
	if e.pos < len(e.prefix) {
		// already checked by the path this prefix was split from
		return
	}
	e.assertsChecked++
	var cex Model
	if c.IsFalse() {
		if !e.ensureModel() {
			return
		}
		cex = e.model
	} else if e.modelOK && !e.evalBool(c) {
		cex = e.model
	} else {
		r, m := e.S.Check(Not(c), true)
		switch r {
		case Unsat:
			if e.X.crossCheck != "" && e.X.takeCrossBudget() {
				for _, k := range strings.Split(e.X.crossCheck, ",") {
					if rr := e.S.CrossCheck(k, Not(c)); rr != Unsat {
						e.X.noteUnknown(fmt.Sprintf("solver disagreement on assertion %q: z3 unsat, %s %v", msg, k, rr))
					} else {
						e.X.crossChecked(k)
					}
				}
			}
			e.X.discharged(msg)
			return
		case Unknown:
			e.X.noteUnknown("assertion " + msg)
			return
		}
		cex = m
		if !e.modelSatisfiesPC(m) || c.Eval(m, map[*Term]uint64{}) != 0 {
			e.X.noteUnknown("solver model for a failed assertion does not satisfy the query: " + msg)
			return
		}
	}
	e.viol = append(e.viol, &Violation{Msg: msg, Model: cex, Kind: "assert", Dec: append([]Decision(nil), e.dec...)})
	// continue on the side where the assertion holds, if any
	e.assume(c)
}

// ---------------------------------------------------------------- standard library intrinsics

var intrinsics map[string]intrinsic

func termArg(v Value) *Term { return v.(*Term) }

func (e *Exec) strIndexByte(s StrVal, c *Term) Value {
	// result = first i with s[i]==c else -1, as an ite chain (no forking)
	r := konst(-1)
	for i := len(s.B) - 1; i >= 0; i-- {
		r = Ite(Eq(s.B[i], c), konst(i), r)
	}
	return r
}

func (e *Exec) sliceBytes(s SliceVal) StrVal {
	if s.Back == nil {
		return StrVal{}
	}
	n, off := int(e.concretize(s.Len)), int(e.concretize(s.Off))
	b := make([]*Term, n)
	for i := range b {
		b[i] = e.loadElem(s.Back, off+i).(*Term)
	}
	return StrVal{b}
}

func (e *Exec) sliceTerms(s SliceVal) []*Term {
	if s.Back == nil {
		return nil
	}
	n, off := int(e.concretize(s.Len)), int(e.concretize(s.Off))
	out := make([]*Term, n)
	for i := range out {
		out[i] = e.loadElem(s.Back, off+i).(*Term)
	}
	return out
}

func (e *Exec) strIndex(s, sub StrVal) Value {
	n, m := len(s.B), len(sub.B)
	if m == 0 {
		return konst(0)
	}
	r := konst(-1)
	for i := n - m; i >= 0; i-- {
		eq := e.valEq(StrVal{s.B[i : i+m]}, sub)
		r = Ite(eq, konst(i), r)
	}
	return r
}

func ptrCell(e *Exec, v Value) *Cell {
	p := v.(Ptr)
	if p.C == nil {
		e.goPanic("runtime error: invalid memory address or nil pointer dereference")
	}
	return p.C
}

func init() {
	nop := func(e *Exec, fr *Frame, fn *ssa.Function, a []Value) (Value, int) { return done(nil) }
	intrinsics = map[string]intrinsic{
		"internal/bytealg.IndexByteString": func(e *Exec, fr *Frame, fn *ssa.Function, a []Value) (Value, int) {
			return done(e.strIndexByte(a[0].(StrVal), termArg(a[1])))
		},
		"internal/bytealg.IndexByte": func(e *Exec, fr *Frame, fn *ssa.Function, a []Value) (Value, int) {
			return done(e.strIndexByte(e.sliceBytes(a[0].(SliceVal)), termArg(a[1])))
		},
		"internal/bytealg.IndexString": func(e *Exec, fr *Frame, fn *ssa.Function, a []Value) (Value, int) {
			return done(e.strIndex(a[0].(StrVal), a[1].(StrVal)))
		},
		"internal/bytealg.Index": func(e *Exec, fr *Frame, fn *ssa.Function, a []Value) (Value, int) {
			return done(e.strIndex(e.sliceBytes(a[0].(SliceVal)), e.sliceBytes(a[1].(SliceVal))))
		},
		"internal/bytealg.CountString": func(e *Exec, fr *Frame, fn *ssa.Function, a []Value) (Value, int) {
			s := a[0].(StrVal)
			r := konst(0)
			for _, b := range s.B {
				r = BinBV(OpAdd, r, Ite(Eq(b, termArg(a[1])), konst(1), konst(0)))
			}
			return done(r)
		},
		"internal/bytealg.Count": func(e *Exec, fr *Frame, fn *ssa.Function, a []Value) (Value, int) {
			s := e.sliceBytes(a[0].(SliceVal))
			r := konst(0)
			for _, b := range s.B {
				r = BinBV(OpAdd, r, Ite(Eq(b, termArg(a[1])), konst(1), konst(0)))
			}
			return done(r)
		},
		"internal/bytealg.Equal": func(e *Exec, fr *Frame, fn *ssa.Function, a []Value) (Value, int) {
			return done(e.valEq(e.sliceBytes(a[0].(SliceVal)), e.sliceBytes(a[1].(SliceVal))))
		},
		"bytes.Equal": func(e *Exec, fr *Frame, fn *ssa.Function, a []Value) (Value, int) {
			return done(e.valEq(e.sliceBytes(a[0].(SliceVal)), e.sliceBytes(a[1].(SliceVal))))
		},
		"internal/bytealg.Compare": func(e *Exec, fr *Frame, fn *ssa.Function, a []Value) (Value, int) {
			x, y := e.sliceBytes(a[0].(SliceVal)), e.sliceBytes(a[1].(SliceVal))
			return done(Ite(e.valEq(x, y), konst(0), Ite(strLess(x, y, false), konst(-1), konst(1))))
		},
		"internal/bytealg.CompareString": func(e *Exec, fr *Frame, fn *ssa.Function, a []Value) (Value, int) {
			x, y := a[0].(StrVal), a[1].(StrVal)
			return done(Ite(e.valEq(x, y), konst(0), Ite(strLess(x, y, false), konst(-1), konst(1))))
		},
		"strings.Compare": func(e *Exec, fr *Frame, fn *ssa.Function, a []Value) (Value, int) {
			x, y := a[0].(StrVal), a[1].(StrVal)
			return done(Ite(e.valEq(x, y), konst(0), Ite(strLess(x, y, false), konst(-1), konst(1))))
		},
		"internal/bytealg.MakeNoZero": func(e *Exec, fr *Frame, fn *ssa.Function, a []Value) (Value, int) {
			n := int(e.concretize(termArg(a[0])))
			b := e.newBacking(types.Typ[types.Uint8], n)
			return done(e.mkSlice(b, 0, n, n))
		},
		"internal/stringslite.Index": func(e *Exec, fr *Frame, fn *ssa.Function, a []Value) (Value, int) {
			return done(e.strIndex(a[0].(StrVal), a[1].(StrVal)))
		},
		"strings.Index": func(e *Exec, fr *Frame, fn *ssa.Function, a []Value) (Value, int) {
			return done(e.strIndex(a[0].(StrVal), a[1].(StrVal)))
		},
		"(*strings.Builder).copyCheck": nop,
		"(*strings.Builder).String": func(e *Exec, fr *Frame, fn *ssa.Function, a []Value) (Value, int) {
			c := ptrCell(e, a[0])
			// field "buf" is the last field
			buf := c.Sub[len(c.Sub)-1].V.(SliceVal)
			return done(e.sliceBytes(buf))
		},
		"(google.golang.org/protobuf/internal/impl.Export).MessageStateOf": func(e *Exec, fr *Frame, fn *ssa.Function, a []Value) (Value, int) {
			return done(Ptr{})
		},
		"(*google.golang.org/protobuf/internal/impl.MessageState).StoreMessageInfo": nop,
		"(*google.golang.org/protobuf/internal/impl.messageState).StoreMessageInfo": nop,
		"runtime.Callers":      func(e *Exec, fr *Frame, fn *ssa.Function, a []Value) (Value, int) { return done(konst(0)) },
		"runtime.KeepAlive":    nop,
		"runtime.SetFinalizer": nop,
		"runtime.Gosched":      nop,
		"runtime.GC":           nop,
		"internal/race.Acquire": nop, "internal/race.Release": nop, "internal/race.ReleaseMerge": nop,
		"internal/race.Disable": nop, "internal/race.Enable": nop, "internal/race.Read": nop, "internal/race.Write": nop,
		"internal/race.ReadRange": nop, "internal/race.WriteRange": nop,

		// ---- sync
		"(*sync.Mutex).Lock": func(e *Exec, fr *Frame, fn *ssa.Function, a []Value) (Value, int) {
			m := e.mutex(ptrCell(e, a[0]))
			if m.locked {
				e.cur.blocked = func() bool { return !m.locked }
				e.cur.why = "mutex lock in " + fr.fn.String()
				return nil, stBlocked
			}
			m.locked = true
			e.hbAcquire(m)
			return done(nil)
		},
		"(*sync.Mutex).TryLock": func(e *Exec, fr *Frame, fn *ssa.Function, a []Value) (Value, int) {
			m := e.mutex(ptrCell(e, a[0]))
			if m.locked {
				return done(tFalse)
			}
			m.locked = true
			return done(tTrue)
		},
		"(*sync.Mutex).Unlock": func(e *Exec, fr *Frame, fn *ssa.Function, a []Value) (Value, int) {
			m := e.mutex(ptrCell(e, a[0]))
			if !m.locked {
				e.goPanic("sync: unlock of unlocked mutex")
			}
			e.hbRelease(m)
			m.locked = false
			return done(nil)
		},
		"(*sync.RWMutex).Lock": func(e *Exec, fr *Frame, fn *ssa.Function, a []Value) (Value, int) {
			m := e.mutex(ptrCell(e, a[0]))
			if m.locked || m.readers > 0 {
				e.cur.blocked = func() bool { return !m.locked && m.readers == 0 }
				e.cur.why = "rwmutex lock in " + fr.fn.String()
				return nil, stBlocked
			}
			m.locked = true
			e.hbAcquire(m)
			return done(nil)
		},
		"(*sync.RWMutex).Unlock": func(e *Exec, fr *Frame, fn *ssa.Function, a []Value) (Value, int) {
			m := e.mutex(ptrCell(e, a[0]))
			if !m.locked {
				e.goPanic("sync: Unlock of unlocked RWMutex")
			}
			e.hbRelease(m)
			m.locked = false
			return done(nil)
		},
		"(*sync.RWMutex).RLock": func(e *Exec, fr *Frame, fn *ssa.Function, a []Value) (Value, int) {
			m := e.mutex(ptrCell(e, a[0]))
			if m.locked {
				e.cur.blocked = func() bool { return !m.locked }
				e.cur.why = "rwmutex rlock in " + fr.fn.String()
				return nil, stBlocked
			}
			m.readers++
			e.hbAcquire(m)
			return done(nil)
		},
		"(*sync.RWMutex).RUnlock": func(e *Exec, fr *Frame, fn *ssa.Function, a []Value) (Value, int) {
			m := e.mutex(ptrCell(e, a[0]))
			if m.readers <= 0 {
				e.goPanic("sync: RUnlock of unlocked RWMutex")
			}
			e.hbRelease(m)
			m.readers--
			return done(nil)
		},
		"(*sync.WaitGroup).Add": func(e *Exec, fr *Frame, fn *ssa.Function, a []Value) (Value, int) {
			c := ptrCell(e, a[0])
			p := e.wgs[c]
			if p == nil {
				p = new(int64)
				e.wgs[c] = p
			}
			*p += int64(e.concretize(termArg(a[1])))
			if *p < 0 {
				e.goPanic("sync: negative WaitGroup counter")
			}
			return done(nil)
		},
		"(*sync.WaitGroup).Done": func(e *Exec, fr *Frame, fn *ssa.Function, a []Value) (Value, int) {
			c := ptrCell(e, a[0])
			p := e.wgs[c]
			if p == nil || *p <= 0 {
				e.goPanic("sync: negative WaitGroup counter")
			}
			e.hbRelease(c)
			*p--
			return done(nil)
		},
		"(*sync.WaitGroup).Wait": func(e *Exec, fr *Frame, fn *ssa.Function, a []Value) (Value, int) {
			c := ptrCell(e, a[0])
			p := e.wgs[c]
			if p == nil || *p == 0 {
				e.hbAcquire(c)
				return done(nil)
			}
			e.cur.blocked = func() bool { return *p == 0 }
			e.cur.why = "WaitGroup.Wait in " + fr.fn.String()
			return nil, stBlocked
		},
	}
	// math/bits.Len*: the table-driven stdlib bodies cost three 256-way selects per call on a symbolic
	// operand; the same function as a threshold chain (validated by the native witness replays)
	for name, w := range map[string]int{"Len64": 64, "Len32": 32, "Len16": 16, "Len8": 8, "Len": 64} {
		w := w
		intrinsics["math/bits."+name] = func(e *Exec, fr *Frame, fn *ssa.Function, a []Value) (Value, int) {
			x := termArg(a[0])
			r := konst(0)
			for k := 0; k < w; k++ {
				r = Ite(CmpBV(OpULe, BV(w, uint64(1)<<uint(k)), x), konst(k+1), r)
			}
			return done(r)
		}
	}
	// sync/atomic on plain integer cells
	for _, ty := range []string{"Int32", "Int64", "Uint32", "Uint64", "Uintptr"} {
		ty := ty
		intrinsics["sync/atomic.Load"+ty] = func(e *Exec, fr *Frame, fn *ssa.Function, a []Value) (Value, int) {
			e.hbAcquire(ptrCell(e, a[0]))
			return done(e.load(ptrCell(e, a[0])))
		}
		intrinsics["sync/atomic.Store"+ty] = func(e *Exec, fr *Frame, fn *ssa.Function, a []Value) (Value, int) {
			e.hbAcquire(ptrCell(e, a[0]))
			e.hbRelease(ptrCell(e, a[0]))
			e.store(ptrCell(e, a[0]), a[1])
			return done(nil)
		}
		intrinsics["sync/atomic.Add"+ty] = func(e *Exec, fr *Frame, fn *ssa.Function, a []Value) (Value, int) {
			c := ptrCell(e, a[0])
			e.hbAcquire(c)
			e.hbRelease(c)
			nv := BinBV(OpAdd, e.load(c).(*Term), termArg(a[1]))
			e.store(c, nv)
			return done(nv)
		}
		intrinsics["sync/atomic.Swap"+ty] = func(e *Exec, fr *Frame, fn *ssa.Function, a []Value) (Value, int) {
			c := ptrCell(e, a[0])
			e.hbAcquire(c)
			e.hbRelease(c)
			old := e.load(c)
			e.store(c, a[1])
			return done(old)
		}
		intrinsics["sync/atomic.CompareAndSwap"+ty] = func(e *Exec, fr *Frame, fn *ssa.Function, a []Value) (Value, int) {
			c := ptrCell(e, a[0])
			e.hbAcquire(c)
			e.hbRelease(c)
			if e.branch(Eq(e.load(c).(*Term), termArg(a[1]))) {
				e.store(c, a[2])
				return done(tTrue)
			}
			return done(tFalse)
		}
	}
	intrinsics["sync/atomic.LoadPointer"] = func(e *Exec, fr *Frame, fn *ssa.Function, a []Value) (Value, int) {
		return done(e.load(ptrCell(e, a[0])))
	}
	intrinsics["sync/atomic.StorePointer"] = func(e *Exec, fr *Frame, fn *ssa.Function, a []Value) (Value, int) {
		e.store(ptrCell(e, a[0]), a[1])
		return done(nil)
	}
}

// hbKey: the identity a model passes to v.HBRelease / v.HBAcquire (a pointer: its cell).
func hbKey(v Value) any {
	if iv, ok := v.(IfaceVal); ok {
		v = iv.V
	}
	if p, ok := v.(Ptr); ok {
		return p.C
	}
	return "global"
}
