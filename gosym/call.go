package main

import (
	"fmt"
	"go/types"
	"unicode/utf8"

	"golang.org/x/tools/go/ssa"
)

const (
	stDone = iota
	stBlocked
	stPushed // the handler pushed a frame itself; result is delivered by the frame's return
)

type intrinsic func(e *Exec, fr *Frame, fn *ssa.Function, args []Value) (Value, int)

func decodeRune(b []byte) (rune, int) { return utf8.DecodeRune(b) }

func (e *Exec) prepareCall(fr *Frame, c *ssa.CallCommon) (Value, []Value) {
	var args []Value
	var fnv Value
	if c.IsInvoke() {
		recv, ok := e.get(fr, c.Value).(IfaceVal)
		if !ok || recv.T == nil {
			e.goPanic("runtime error: invalid memory address or nil pointer dereference (method call on nil interface)")
		}
		m := e.P.prog.LookupMethod(recv.T, c.Method.Pkg(), c.Method.Name())
		if m == nil {
			unsup("method %s not found on %s", c.Method.Name(), recv.T)
		}
		fnv = &FuncVal{Fn: m}
		args = make([]Value, 0, len(c.Args)+1)
		args = append(args, recv.V)
	} else {
		fnv = e.get(fr, c.Value)
		args = make([]Value, 0, len(c.Args))
	}
	for _, a := range c.Args {
		args = append(args, e.get(fr, a))
	}
	return fnv, args
}

func (e *Exec) resolveModel(fn *ssa.Function) *ssa.Function {
	if len(e.P.replace) == 0 {
		return fn
	}
	name := fn.String()
	if fn.Origin() != nil {
		name = fn.Origin().String()
	}
	if m, ok := e.P.replace[name]; ok {
		if e.stubHits != nil {
			e.stubHits[name]++
		}
		return m
	}
	return fn
}

func (e *Exec) doCall(g *Goroutine, fr *Frame, in *ssa.Call, c *ssa.CallCommon, retMode int) {
	fnv, args := e.prepareCall(fr, c)
	fv, _ := fnv.(*FuncVal)
	if fv == nil {
		e.goPanic("runtime error: invalid memory address or nil pointer dereference (call of nil func)")
	}
	if fv.Bi != nil {
		res := e.callBuiltin(fr, fv.Bi, args, c, nil)
		e.set(fr, in, res)
		fr.ip++
		return
	}
	fn := fv.Fn
	if h := e.lookupIntrinsic(fn); h != nil {
		res, st := h(e, fr, fn, args)
		switch st {
		case stDone:
			e.set(fr, in, res)
			fr.ip++
		case stBlocked, stPushed:
		}
		return
	}
	target := e.resolveModel(fn)
	if target != fn {
		fv = &FuncVal{Fn: target}
	}
	if e.isPkgInit(target) {
		if !e.P.initOK[target.Pkg.Pkg.Path()] {
			e.set(fr, in, nil)
			fr.ip++
			return
		}
	}
	if target.Blocks == nil {
		if fr.initMode {
			e.set(fr, in, e.zeroResult(target))
			fr.ip++
			return
		}
		unsup("call to external function without model: %s (from %s)", target, fr.fn)
	}
	e.pushFrame(g, target, args, fv.Bind, retMode, in)
}

func (e *Exec) zeroResult(fn *ssa.Function) Value {
	rs := fn.Signature.Results()
	switch rs.Len() {
	case 0:
		return nil
	case 1:
		return zeroValue(rs.At(0).Type())
	}
	return zeroValue(rs)
}

func (e *Exec) isPkgInit(fn *ssa.Function) bool {
	return fn.Pkg != nil && fn.Name() == "init" && fn.Signature.Recv() == nil && fn.Pkg.Func("init") == fn
}

func (e *Exec) doGo(g *Goroutine, fr *Frame, c *ssa.CallCommon) {
	fnv, args := e.prepareCall(fr, c)
	fv := fnv.(*FuncVal)
	if fv == nil || fv.Bi != nil {
		unsup("go statement on nil/builtin")
	}
	if len(e.gs) >= 2048 {
		e.endPath("budget", "more than 2048 goroutines")
	}
	ng := &Goroutine{id: len(e.gs)}
	e.gs = append(e.gs, ng)
	if e.raceOn {
		ng.vc = e.sendVC() // the go statement happens before the start of the goroutine
		e.gvc(ng)
	}
	target := e.resolveModel(fv.Fn)
	if h := e.lookupIntrinsic(target); h != nil {
		unsup("go on intrinsic %s", target)
	}
	if target.Blocks == nil {
		unsup("go on external %s", target)
	}
	bind := fv.Bind
	if target != fv.Fn {
		bind = nil
	}
	e.pushFrame(ng, target, args, bind, retGo, nil)
}

// ---------------------------------------------------------------- builtins

func (e *Exec) callBuiltin(fr *Frame, b *ssa.Builtin, args []Value, c *ssa.CallCommon, st *panicState) Value {
	switch b.Name() {
	case "len":
		switch v := args[0].(type) {
		case StrVal:
			return konst(len(v.B))
		case SliceVal:
			if v.Back == nil {
				return konst(0)
			}
			return v.Len
		case MapVal:
			if v.M == nil {
				return konst(0)
			}
			return konst(len(v.M.Keys))
		case ChanVal:
			if v.C == nil {
				return konst(0)
			}
			return konst(len(v.C.buf))
		case *AggVal:
			return konst(len(v.F))
		case Ptr:
			if v.C == nil {
				return konst(0)
			}
			return konst(len(v.C.Sub))
		}
	case "cap":
		switch v := args[0].(type) {
		case SliceVal:
			if v.Back == nil {
				return konst(0)
			}
			return v.Cap
		case ChanVal:
			if v.C == nil {
				return konst(0)
			}
			return konst(v.C.cap)
		case *AggVal:
			return konst(len(v.F))
		case Ptr:
			if v.C == nil {
				return konst(0)
			}
			return konst(len(v.C.Sub))
		}
	case "append":
		return e.appendOp(args[0].(SliceVal), args[1], c.Args[0].Type())
	case "copy":
		return e.copyOp(args[0].(SliceVal), args[1])
	case "delete":
		m := args[0].(MapVal)
		if m.M != nil {
			e.mapDelete(m.M, args[1])
		}
		return nil
	case "clear":
		switch v := args[0].(type) {
		case MapVal:
			if v.M != nil {
				e.mapTouch(v.M)
				v.M.Keys, v.M.Vals = nil, nil
			}
		case SliceVal:
			n := int(e.concretize(v.Len))
			off := int(e.concretize(v.Off))
			for i := 0; i < n; i++ {
				if cell := v.Back.peek(off + i); cell != nil {
					e.store(cell, zeroValue(v.Back.Elem))
				}
			}
		}
		return nil
	case "close":
		ch := args[0].(ChanVal)
		if ch.C == nil {
			e.goPanic("close of nil channel")
		}
		if ch.C.closed {
			e.goPanic("close of closed channel")
		}
		ch.C.closed = true
		if e.raceOn {
			ch.C.closeVC = vcJoin(ch.C.closeVC, e.sendVC())
		}
		return nil
	case "panic":
		v := args[0]
		panic(goPanicSignal{&panicState{val: v, msg: "panic: " + e.panicText(v)}})
	case "recover":
		if fr.panicSt != nil && !fr.panicSt.recovered {
			fr.panicSt.recovered = true
			return fr.panicSt.val
		}
		return IfaceVal{}
	case "print", "println":
		return nil
	case "min", "max":
		r := args[0]
		for i, a := range args[1:] {
			_ = i
			switch x := r.(type) {
			case *Term:
				_, signed, _ := intW(c.Args[0].Type())
				y := a.(*Term)
				var lt *Term
				if signed {
					lt = CmpBV(OpSLt, y, x)
				} else {
					lt = CmpBV(OpULt, y, x)
				}
				if b.Name() == "max" {
					lt = Not(Or(lt, Eq(x, y)))
				}
				r = Ite(lt, y, x)
			case StrVal:
				y := a.(StrVal)
				lt := strLess(y, x, false)
				if b.Name() == "max" {
					lt = strLess(x, y, false)
				}
				if e.branch(lt) {
					r = y
				}
			default:
				unsup("min/max on %T", r)
			}
		}
		return r
	case "ssa:wrapnilchk":
		p := args[0].(Ptr)
		if p.C == nil {
			e.goPanic("value method called using nil pointer")
		}
		return p
	case "String": // unsafe.String(ptr, len)
		p := args[0].(Ptr)
		n := int(e.concretize(e.toInt64(args[1].(*Term), c.Args[1].Type())))
		if n == 0 {
			return StrVal{}
		}
		if p.C == nil || p.C.Back == nil {
			unsup("unsafe.String on non-slice pointer")
		}
		bs := make([]*Term, n)
		for i := 0; i < n; i++ {
			bs[i] = e.loadElem(p.C.Back, p.C.Idx+i).(*Term)
		}
		return StrVal{bs}
	case "SliceData":
		s := args[0].(SliceVal)
		if s.Back == nil {
			return Ptr{}
		}
		off := int(e.concretize(s.Off))
		if !s.Back.Wide && off >= s.Back.N {
			// zero-capacity tail: any non-nil pointer will do
			return Ptr{&Cell{T: s.Back.Elem, V: zeroValue(s.Back.Elem), Back: s.Back, Idx: off}}
		}
		return Ptr{e.cellAt(s.Back, off)}
	case "StringData":
		s := args[0].(StrVal)
		b := e.newBacking(types.Typ[types.Uint8], len(s.B))
		for i, t := range s.B {
			e.cellAt(b, i).V = t
		}
		if len(s.B) == 0 {
			return Ptr{}
		}
		return Ptr{e.cellAt(b, 0)}
	case "Slice": // unsafe.Slice(ptr, len)
		p := args[0].(Ptr)
		n := int(e.concretize(e.toInt64(args[1].(*Term), c.Args[1].Type())))
		if p.C == nil {
			return SliceVal{}
		}
		if p.C.Back == nil {
			unsup("unsafe.Slice on non-slice pointer")
		}
		return e.mkSlice(p.C.Back, p.C.Idx, n, n)
	}
	unsup("builtin %s on %T", b.Name(), args[0])
	return nil
}

func (e *Exec) appendOp(s SliceVal, more Value, st types.Type) Value {
	elem := st.Underlying().(*types.Slice).Elem()
	var n int
	var get func(i int) Value
	switch m := more.(type) {
	case SliceVal:
		if m.Back == nil {
			return s
		}
		n = int(e.concretize(m.Len))
		moff := int(e.concretize(m.Off))
		// snapshot first (src may alias dst)
		vals := make([]Value, n)
		for i := range vals {
			vals[i] = e.loadElem(m.Back, moff+i)
		}
		get = func(i int) Value { return vals[i] }
	case StrVal:
		n = len(m.B)
		get = func(i int) Value { return m.B[i] }
	default:
		unsup("append of %T", more)
	}
	if n == 0 {
		return s
	}
	var ln, cp, off int
	if s.Back != nil {
		ln, cp, off = int(e.concretize(s.Len)), int(e.concretize(s.Cap)), int(e.concretize(s.Off))
	}
	if s.Back != nil && ln+n <= cp {
		for i := 0; i < n; i++ {
			e.store(e.cellAt(s.Back, off+ln+i), get(i))
		}
		return e.mkSlice(s.Back, off, ln+n, cp)
	}
	newCap := cp * 2
	if newCap < ln+n {
		newCap = ln + n
	}
	if newCap < 4 && ln+n <= 4 {
		// small slices: Go rounds up to a size class; exact value is not part of any contract
		newCap = ln + n
	}
	nb := e.newBacking(elem, newCap)
	for i := 0; i < ln; i++ {
		if c := s.Back.peek(off + i); c != nil {
			e.store(e.cellAt(nb, i), e.load(c))
		}
	}
	for i := 0; i < n; i++ {
		e.store(e.cellAt(nb, ln+i), get(i))
	}
	return e.mkSlice(nb, 0, ln+n, newCap)
}

func (e *Exec) copyOp(dst SliceVal, src Value) Value {
	if dst.Back == nil {
		return konst(0)
	}
	dl, doff := int(e.concretize(dst.Len)), int(e.concretize(dst.Off))
	var n int
	var vals []Value
	switch s := src.(type) {
	case SliceVal:
		if s.Back == nil {
			return konst(0)
		}
		sl, soff := int(e.concretize(s.Len)), int(e.concretize(s.Off))
		n = sl
		if dl < n {
			n = dl
		}
		vals = make([]Value, n)
		for i := 0; i < n; i++ {
			vals[i] = e.loadElem(s.Back, soff+i)
		}
	case StrVal:
		n = len(s.B)
		if dl < n {
			n = dl
		}
		vals = make([]Value, n)
		for i := 0; i < n; i++ {
			vals[i] = s.B[i]
		}
	default:
		unsup("copy from %T", src)
	}
	for i := 0; i < n; i++ {
		e.store(e.cellAt(dst.Back, doff+i), vals[i])
	}
	return konst(n)
}

// ---------------------------------------------------------------- branching

// branch decides a Bool term, forking the exploration when both sides are feasible.
func (e *Exec) branch(c *Term) bool {
	if c.IsConst() {
		return c.C == 1
	}
	return e.decide([]*Term{c, Not(c)}) == 0
}

func (e *Exec) ensureModel() bool {
	if e.modelOK {
		return true
	}
	r, m := e.S.Check(nil, true)
	if r == Sat {
		if !e.modelSatisfiesPC(m) {
			e.X.noteUnknown("solver model does not satisfy the path condition (model parse/encoding error)")
			return false
		}
		e.model, e.modelOK = m, true
		return true
	}
	if r == Unsat {
		e.endPath("infeasible", "path condition unsatisfiable")
	}
	e.X.noteUnknown("path condition")
	return false
}

func (e *Exec) evalBool(t *Term) bool {
	return t.Eval(e.model, map[*Term]uint64{}) == 1
}

func (e *Exec) addPC(c *Term) {
	e.pc = append(e.pc, c)
	e.S.Assert(c)
	if e.modelOK && !e.evalBool(c) {
		e.modelOK = false
	}
}

// decide picks one of mutually exclusive, jointly exhaustive conditions; the others that are
// feasible are queued as new path prefixes.
func (e *Exec) decide(conds []*Term) int {
	if e.inInit {
		panic("symbolic decision during package initialisation")
	}
	if e.pos < len(e.prefix) {
		d := e.prefix[e.pos]
		e.pos++
		e.dec = append(e.dec, d)
		e.addPC(conds[d.K])
		return d.K
	}
	// conditions that are literally conjuncts of the path condition need no query
	for i, c := range conds {
		if val, known := e.S.Known(c); known && val {
			_ = i
			e.dec = append(e.dec, Decision{K: i, V: 1 << 63})
			return i
		}
	}
	e.forks++
	e.noteForkSite()
	modelPick := -1
	if e.ensureModel() {
		cache := map[*Term]uint64{}
		for i, c := range conds {
			if c.Eval(e.model, cache) == 1 {
				modelPick = i
				break
			}
		}
	}
	var feas []int
	for i, c := range conds {
		if i == modelPick {
			feas = append(feas, i)
			continue
		}
		if c.IsFalse() {
			continue
		}
		if val, known := e.S.Known(c); known && !val {
			continue
		}
		r, _ := e.S.Check(c, false)
		if r == Unknown {
			e.X.noteUnknown("branch feasibility")
		}
		if r != Unsat {
			feas = append(feas, i)
		}
	}
	if len(feas) == 0 {
		e.endPath("infeasible", "no feasible branch")
	}
	pick := modelPick
	if pick < 0 {
		pick = feas[0]
	}
	for _, i := range feas {
		if i == pick {
			continue
		}
		np := make([]Decision, len(e.dec)+1)
		copy(np, e.dec)
		np[len(e.dec)] = Decision{K: i}
		e.X.push(np)
	}
	e.dec = append(e.dec, Decision{K: pick})
	e.addPC(conds[pick])
	return pick
}

// concretize turns a term into a concrete value by forking over its feasible values.
func (e *Exec) concretize(t *Term) uint64 {
	if t.IsConst() {
		return t.C
	}
	if e.inInit {
		panic("symbolic value concretised during package initialisation")
	}
	for {
		if e.pos < len(e.prefix) {
			d := e.prefix[e.pos]
			e.pos++
			e.dec = append(e.dec, d)
			c := Eq(t, BV(t.W, d.V))
			if d.K == 0 {
				e.addPC(c)
				return d.V
			}
			e.addPC(Not(c))
			continue
		}
		e.forks++
		e.noteForkSite()
		if !e.ensureModel() {
			e.endPath("unsupported", "cannot concretise without a model (solver unknown)")
		}
		v := t.Eval(e.model, map[*Term]uint64{})
		c := Eq(t, BV(t.W, v))
		r, _ := e.S.Check(Not(c), false)
		if r == Unknown {
			e.X.noteUnknown("concretisation")
		}
		if r != Unsat {
			np := make([]Decision, len(e.dec)+1)
			copy(np, e.dec)
			np[len(e.dec)] = Decision{K: 1, V: v}
			e.X.push(np)
		}
		e.dec = append(e.dec, Decision{K: 0, V: v})
		e.addPC(c)
		return v
	}
}

func (e *Exec) concretizeBounded(t *Term, n int) uint64 {
	e.boundsCheck(CmpBV(OpULe, t, konst(n)), fmt.Sprintf("runtime error: slice bounds out of range with length %d", n))
	return e.concretize(t)
}

func (e *Exec) noteAlloc(sz *Term) {
	lim := konst(e.allocLimit)
	if e.branch(CmpBV(OpULe, sz, lim)) {
		return
	}
	e.goPanic("allocation larger than the stated limit")
}

// modelSatisfiesPC re-evaluates every conjunct of the path condition under m with gosym's own
// term evaluator: a guard against model parsing or encoding errors.
func (e *Exec) modelSatisfiesPC(m Model) bool {
	cache := map[*Term]uint64{}
	for _, c := range e.pc {
		if c.Eval(m, cache) != 1 {
			return false
		}
	}
	return true
}

func (e *Exec) noteForkSite() {
	if e.forkSites == nil || e.cur == nil || len(e.cur.frames) == 0 {
		return
	}
	fr := e.cur.frames[len(e.cur.frames)-1]
	pos := ""
	if fr.ip < len(fr.block.Instrs) {
		p := e.P.prog.Fset.Position(fr.block.Instrs[fr.ip].Pos())
		pos = fmt.Sprintf(":%d", p.Line)
	}
	e.forkSites[fr.fn.String()+pos]++
}
