package main

import (
	"encoding/json"
	"flag"
	"fmt"
	"go/ast"
	"os"
	"path/filepath"
	"runtime"
	"sort"
	"strconv"
	"strings"
	"time"

	"golang.org/x/tools/go/packages"
	"golang.org/x/tools/go/ssa"
	"golang.org/x/tools/go/ssa/ssautil"
)

const modPath = "github.com/tonistiigi/fsutil"

type multiFlag []string

func (m *multiFlag) String() string     { return strings.Join(*m, ",") }
func (m *multiFlag) Set(s string) error { *m = append(*m, s); return nil }

// buildOverlay maps files under verifDir/{models,harness} into virtual locations below repo.
func buildOverlay(repo, verif string) (map[string][]byte, []string, error) {
	ov := map[string][]byte{}
	var extraPkgs []string
	add := func(srcDir, dstDir, prefix string) error {
		ents, err := os.ReadDir(srcDir)
		if err != nil {
			return nil
		}
		for _, en := range ents {
			if en.IsDir() || !strings.HasSuffix(en.Name(), ".go") {
				continue
			}
			b, err := os.ReadFile(filepath.Join(srcDir, en.Name()))
			if err != nil {
				return err
			}
			ov[filepath.Join(dstDir, prefix+en.Name())] = b
		}
		return nil
	}
	// model packages: /verif/models/<name> -> /repo/zz_verif/<name>
	ents, _ := os.ReadDir(filepath.Join(verif, "models"))
	for _, en := range ents {
		if en.IsDir() {
			if err := add(filepath.Join(verif, "models", en.Name()), filepath.Join(repo, "zz_verif", en.Name()), ""); err != nil {
				return nil, nil, err
			}
			extraPkgs = append(extraPkgs, modPath+"/zz_verif/"+en.Name())
		}
	}
	// harnesses: /verif/harness/<pkgdir or "root"> -> /repo/<pkgdir>/zz_verif_*.go
	ents, _ = os.ReadDir(filepath.Join(verif, "harness"))
	for _, en := range ents {
		if !en.IsDir() {
			continue
		}
		dst := repo
		if en.Name() != "root" {
			dst = filepath.Join(repo, en.Name())
		}
		if err := add(filepath.Join(verif, "harness", en.Name()), dst, "zz_verif_"); err != nil {
			return nil, nil, err
		}
	}
	return ov, extraPkgs, nil
}

func loadProgram(repo, verif string, tags string) (*Program, error) {
	ov, extra, err := buildOverlay(repo, verif)
	if err != nil {
		return nil, err
	}
	cfg := &packages.Config{
		Mode:       packages.LoadAllSyntax,
		Dir:        repo,
		Overlay:    ov,
		BuildFlags: []string{"-tags=" + tags, "-mod=mod"},
		Env:        append(os.Environ(), "GOFLAGS=-mod=mod", "GOPROXY=off", "GOSUMDB=off", "GOTOOLCHAIN=local", "CGO_ENABLED=0"),
	}
	pats := append([]string{modPath, modPath + "/copy", modPath + "/types", modPath + "/util"}, extra...)
	pkgs, err := packages.Load(cfg, pats...)
	if err != nil {
		return nil, err
	}
	nerr := 0
	packages.Visit(pkgs, nil, func(p *packages.Package) {
		for _, e := range p.Errors {
			if strings.HasPrefix(p.PkgPath, modPath) {
				fmt.Fprintf(os.Stderr, "load error: %s: %v\n", p.PkgPath, e)
				nerr++
			}
		}
	})
	if nerr > 0 {
		return nil, fmt.Errorf("%d load errors", nerr)
	}
	prog, _ := ssautil.AllPackages(pkgs, ssa.InstantiateGenerics|ssa.SanityCheckFunctions*0)
	prog.Build()
	P := &Program{prog: prog, pkgs: map[string]*ssa.Package{}, infos: map[*ssa.Function]*fnInfo{}, replace: map[string]*ssa.Function{},
		initOK: map[string]bool{}, vPkgPath: modPath + "/zz_verif/v"}
	for _, p := range prog.AllPackages() {
		P.pkgs[p.Pkg.Path()] = p
	}
	// model replacement directives: "//gosym:replace <qualified name>" in the doc comment of a model function
	packages.Visit(pkgs, nil, func(p *packages.Package) {
		if !strings.HasPrefix(p.PkgPath, modPath+"/zz_verif/") {
			return
		}
		sp := P.pkgs[p.PkgPath]
		for _, f := range p.Syntax {
			for _, d := range f.Decls {
				fd, ok := d.(*ast.FuncDecl)
				if !ok || fd.Doc == nil || fd.Recv != nil {
					continue
				}
				for _, c := range fd.Doc.List {
					if rest, ok := strings.CutPrefix(c.Text, "//gosym:replace "); ok {
						fn := sp.Func(fd.Name.Name)
						if fn == nil {
							fmt.Fprintf(os.Stderr, "model %s not found in SSA\n", fd.Name.Name)
							continue
						}
						for _, target := range strings.Fields(rest) {
							P.replace[target] = fn
						}
					}
				}
			}
		}
	})
	for _, p := range strings.Split(initWhitelist, " ") {
		P.initOK[p] = true
	}
	for _, e := range extra {
		P.initOK[e] = true
	}
	return P, nil
}

const initWhitelist = "github.com/tonistiigi/fsutil github.com/tonistiigi/fsutil/copy github.com/tonistiigi/fsutil/util " +
	"github.com/tonistiigi/fsutil/types io io/fs errors internal/oserror syscall context path/filepath path os " +
	"github.com/moby/patternmatcher golang.org/x/sys/unix github.com/containerd/continuity/fs github.com/containerd/continuity/sysx " +
	"archive/tar time internal/filepathlite strconv unicode/utf8 sort strings bytes sync sync/atomic golang.org/x/sync/errgroup " +
	"github.com/pkg/errors github.com/opencontainers/go-digest encoding/binary hash math/bits github.com/planetscale/vtprotobuf/protohelpers " +
	"text/scanner regexp regexp/syntax unicode"

func main() {
	repo := flag.String("repo", "/repo", "repository root")
	verif := flag.String("verif", "/verif", "verification root (models/, harness/)")
	pkg := flag.String("pkg", modPath, "package containing the harness")
	var harnesses multiFlag
	flag.Var(&harnesses, "harness", "harness function name (repeatable); optional ':k=v,k=v' parameter suffix")
	workers := flag.Int("workers", runtime.NumCPU(), "parallel workers")
	maxPaths := flag.Int("max-paths", 200000, "path budget per harness")
	maxSteps := flag.Int("max-steps", 2000000, "instruction budget per path")
	cross := flag.String("cross", "", "comma separated solver kinds for cross-checking assertion verdicts")
	revMaps := flag.Bool("reverse-maps", false, "iterate maps in reverse insertion order")
	samples := flag.Int("samples", 4, "sample complete paths to record per harness")
	timeLimit := flag.Duration("time", 0, "wall time limit per harness")
	out := flag.String("out", "", "write JSON results here (default stdout)")
	tags := flag.String("tags", "gosym", "build tags for loading")
	list := flag.Bool("list", false, "list harness functions")
	flag.BoolVar(&verboseInit, "verbose-init", false, "report skipped initialiser statements")
	dump := flag.String("dump", "", "dump SSA of the named function and exit")
	solver := flag.String("solver", "z3-new", "primary solver kind")
	seed := flag.Int64("seed", 0, "seed for witness sample selection (verdicts do not depend on it)")
	renamePrefix := flag.String("rename-harness", "", "maintenance: prefix every package-level helper declared in the harness files with this string and exit")
	flag.Parse()

	t0 := time.Now()
	if *renamePrefix != "" {
		if err := renameHarness(*repo, *verif, *tags, *renamePrefix); err != nil {
			fmt.Fprintln(os.Stderr, err)
			os.Exit(2)
		}
		return
	}
	P, err := loadProgram(*repo, *verif, *tags)
	if err != nil {
		fmt.Fprintln(os.Stderr, "gosym: load failed:", err)
		os.Exit(2)
	}
	loadSec := time.Since(t0).Seconds()
	sp := P.pkgs[*pkg]
	if sp == nil {
		fmt.Fprintln(os.Stderr, "gosym: package not loaded:", *pkg)
		os.Exit(2)
	}
	if *list {
		var names []string
		for n, m := range sp.Members {
			if _, ok := m.(*ssa.Function); ok && strings.HasPrefix(n, "VH_") {
				names = append(names, n)
			}
		}
		sort.Strings(names)
		fmt.Println(strings.Join(names, "\n"))
		return
	}
	if *dump != "" {
		if fn := sp.Func(*dump); fn != nil {
			fn.WriteTo(os.Stdout)
		}
		return
	}
	var results []*Result
	for _, h := range harnesses {
		name, ps, _ := strings.Cut(h, ":")
		params := map[string]int64{}
		if ps != "" {
			for _, kv := range strings.Split(ps, ",") {
				k, v, _ := strings.Cut(kv, "=")
				n, err := strconv.ParseInt(v, 10, 64)
				if err != nil {
					fmt.Fprintln(os.Stderr, "gosym: bad parameter", kv)
					os.Exit(2)
				}
				params[k] = n
			}
		}
		fn := sp.Func(name)
		if fn == nil {
			fmt.Fprintln(os.Stderr, "gosym: harness not found:", name)
			os.Exit(2)
		}
		cfg := Config{Workers: *workers, MaxPaths: *maxPaths, MaxSteps: *maxSteps, CrossCheck: *cross, ReverseMaps: *revMaps,
			Params: params, Samples: *samples, TimeLimit: *timeLimit, Solver: *solver, Seed: *seed}
		r := Explore(P, fn, cfg)
		results = append(results, r)
		if r.Truncated {
			fmt.Fprintf(os.Stderr, "gosym: %s TRUNCATED by path/time budget\n", name)
		}
		fmt.Fprintf(os.Stderr, "gosym: %s %v paths=%v forks=%d asserts=%d queries=%d solver=%.1fs wall=%.1fs cex=%d unknown=%d unsupported=%d budget=%d\n",
			name, params, r.Paths, r.Forks, r.AssertCount, r.Queries, r.SolverSec, r.WallSec, len(r.Cex), len(r.Unknowns), len(r.Unsupported), len(r.Budget))
		for _, u := range r.Unsupported {
			fmt.Fprintln(os.Stderr, "   unsupported:", u)
		}
		for _, u := range r.Budget {
			fmt.Fprintln(os.Stderr, "   budget:", u)
		}
		for _, u := range r.Unknowns {
			fmt.Fprintln(os.Stderr, "   unknown:", u)
		}
		for _, c := range r.Cex {
			fmt.Fprintf(os.Stderr, "   cex[%s]: %s %v obs=%v\n", c.Kind, c.Msg, c.Inputs, c.Observes)
		}
	}
	doc := map[string]interface{}{"load_s": loadSec, "results": results}
	b, _ := json.MarshalIndent(doc, "", " ")
	if *out == "" {
		os.Stdout.Write(b)
		fmt.Println()
	} else {
		os.WriteFile(*out, b, 0644)
	}
}
