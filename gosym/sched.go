package main

import (
	"go/types"

	"golang.org/x/tools/go/ssa"
)

type ChanObj struct {
	bufVC   []vclock // clock carried by each buffered message (race detection)
	closeVC vclock
	buf    []Value
	cap    int
	closed bool
	elem   types.Type
	recvq  []*waiter
	sendq  []*waiter
}

type waiter struct {
	g       *Goroutine
	vc      vclock // clock of a blocked sender's message
	val     Value
	caseIdx int
	sel     *selState
}

type selState struct {
	vc   vclock // clock handed over with the value
	done bool
	idx  int
	val  Value
	ok   bool
}

func liveWaiter(q *[]*waiter) *waiter {
	for len(*q) > 0 {
		w := (*q)[0]
		if w.sel.done {
			*q = (*q)[1:]
			continue
		}
		return w
	}
	return nil
}

// trySend attempts a non-blocking send.
func (e *Exec) trySend(ch *ChanObj, v Value) bool {
	if ch == nil {
		return false
	}
	if ch.closed {
		e.goPanic("send on closed channel")
	}
	if w := liveWaiter(&ch.recvq); w != nil {
		ch.recvq = ch.recvq[1:]
		w.sel.done, w.sel.idx, w.sel.val, w.sel.ok = true, w.caseIdx, v, true
		w.sel.vc = e.sendVC()
		return true
	}
	if len(ch.buf) < ch.cap {
		ch.buf = append(ch.buf, v)
		if e.raceOn {
			ch.bufVC = append(ch.bufVC, e.sendVC())
		}
		return true
	}
	return false
}

// tryRecv attempts a non-blocking receive.
func (e *Exec) tryRecv(ch *ChanObj) (Value, bool, bool) {
	if ch == nil {
		return nil, false, false
	}
	if len(ch.buf) > 0 {
		v := ch.buf[0]
		ch.buf = append([]Value(nil), ch.buf[1:]...)
		if e.raceOn && len(ch.bufVC) > 0 {
			e.acquireVC(ch.bufVC[0])
			ch.bufVC = append([]vclock(nil), ch.bufVC[1:]...)
		}
		if w := liveWaiter(&ch.sendq); w != nil {
			ch.sendq = ch.sendq[1:]
			ch.buf = append(ch.buf, w.val)
			if e.raceOn {
				ch.bufVC = append(ch.bufVC, w.vc)
			}
			w.sel.done, w.sel.idx = true, w.caseIdx
		}
		return v, true, true
	}
	if w := liveWaiter(&ch.sendq); w != nil {
		ch.sendq = ch.sendq[1:]
		w.sel.done, w.sel.idx = true, w.caseIdx
		e.acquireVC(w.vc)
		return w.val, true, true
	}
	if ch.closed {
		e.acquireVC(ch.closeVC)
		return zeroValue(ch.elem), false, true
	}
	return nil, false, false
}

func (e *Exec) chanSend(g *Goroutine, fr *Frame, in *ssa.Send) {
	ch := e.get(fr, in.Chan).(ChanVal).C
	if g.sel != nil {
		s := g.sel
		g.sel = nil
		if s.done {
			fr.ip++
			return
		}
		s.done = true // stale
	}
	v := e.get(fr, in.X)
	if e.trySend(ch, v) {
		fr.ip++
		return
	}
	s := &selState{}
	g.sel = s
	if ch == nil {
		g.blocked = func() bool { return false }
		g.why = "send on nil channel"
		return
	}
	ch.sendq = append(ch.sendq, &waiter{g: g, val: v, sel: s, vc: e.sendVC()})
	g.blocked = func() bool { return s.done || ch.closed }
	g.why = "chan send in " + fr.fn.String()
}

func (e *Exec) chanRecv(g *Goroutine, fr *Frame, in *ssa.UnOp) {
	ch := e.get(fr, in.X).(ChanVal).C
	finish := func(v Value, ok bool) {
		if in.CommaOk {
			e.set(fr, in, TupleVal{v, Bool(ok)})
		} else {
			e.set(fr, in, v)
		}
		fr.ip++
	}
	if g.sel != nil {
		s := g.sel
		g.sel = nil
		if s.done {
			e.acquireVC(s.vc)
			finish(s.val, s.ok)
			return
		}
		s.done = true
	}
	if v, ok, done := e.tryRecv(ch); done {
		finish(v, ok)
		return
	}
	s := &selState{}
	g.sel = s
	if ch == nil {
		g.blocked = func() bool { return false }
		g.why = "receive on nil channel"
		return
	}
	ch.recvq = append(ch.recvq, &waiter{g: g, sel: s})
	g.blocked = func() bool { return s.done || ch.closed }
	g.why = "chan receive in " + fr.fn.String()
}

func (e *Exec) selectOp(g *Goroutine, fr *Frame, in *ssa.Select) {
	finish := func(idx int, v Value, ok bool) {
		res := TupleVal{konst(idx), Bool(ok)}
		for i, st := range in.States {
			if st.Dir == types.RecvOnly {
				if i == idx {
					res = append(res, v)
				} else {
					res = append(res, zeroValue(st.Chan.Type().Underlying().(*types.Chan).Elem()))
				}
			}
		}
		e.set(fr, in, res)
		fr.ip++
	}
	if g.sel != nil {
		s := g.sel
		g.sel = nil
		if s.done {
			e.acquireVC(s.vc)
			finish(s.idx, s.val, s.ok)
			return
		}
		s.done = true
	}
	chans := make([]*ChanObj, len(in.States))
	for i, st := range in.States {
		chans[i] = e.get(fr, st.Chan).(ChanVal).C
	}
	for i, st := range in.States {
		if st.Dir == types.SendOnly {
			if chans[i] != nil && (chans[i].closed || liveWaiter(&chans[i].recvq) != nil || len(chans[i].buf) < chans[i].cap) {
				e.trySend(chans[i], e.get(fr, st.Send))
				finish(i, nil, false)
				return
			}
		} else {
			if v, ok, done := e.tryRecv(chans[i]); done {
				finish(i, v, ok)
				return
			}
		}
	}
	if !in.Blocking {
		finish(-1, nil, false)
		return
	}
	s := &selState{}
	g.sel = s
	for i, st := range in.States {
		if chans[i] == nil {
			continue
		}
		w := &waiter{g: g, caseIdx: i, sel: s}
		if st.Dir == types.SendOnly {
			w.val = e.get(fr, st.Send)
			if e.raceOn {
				w.vc = vcCopy(e.gvc(g)) // (the sender's clock moves on when the select completes)
			}
			chans[i].sendq = append(chans[i].sendq, w)
		} else {
			chans[i].recvq = append(chans[i].recvq, w)
		}
	}
	g.blocked = func() bool {
		if s.done {
			return true
		}
		for _, c := range chans {
			if c != nil && c.closed {
				return true
			}
		}
		return false
	}
	g.why = "select in " + fr.fn.String()
}

// ---------------------------------------------------------------- sync primitives (engine-native)

type mutexState struct {
	locked  bool
	readers int
}

func (e *Exec) mutex(c *Cell) *mutexState {
	m := e.mutexes[c]
	if m == nil {
		m = &mutexState{}
		e.mutexes[c] = m
	}
	return m
}
