package main

import (
	"fmt"
	"math/bits"
	"strings"
)

// Term is an SMT term: a Bool (W==0) or a bit-vector of width W (1..64).
// Constructors fold constants, so a concrete computation never builds a tree.
type Op uint8

const (
	OpConst Op = iota
	OpVar
	OpNot
	OpAnd
	OpOr
	OpIte
	OpEq
	OpAdd
	OpSub
	OpMul
	OpUDiv
	OpURem
	OpSDiv
	OpSRem
	OpBAnd
	OpBOr
	OpBXor
	OpShl
	OpLShr
	OpAShr
	OpNeg
	OpBNot
	OpULt
	OpULe
	OpSLt
	OpSLe
	OpZExt
	OpSExt
	OpExtract // args[0][Hi:Lo]
	OpConcat
)

var opNames = map[Op]string{
	OpNot: "not", OpAnd: "and", OpOr: "or", OpIte: "ite", OpEq: "=",
	OpAdd: "bvadd", OpSub: "bvsub", OpMul: "bvmul", OpUDiv: "bvudiv", OpURem: "bvurem",
	OpSDiv: "bvsdiv", OpSRem: "bvsrem", OpBAnd: "bvand", OpBOr: "bvor", OpBXor: "bvxor",
	OpShl: "bvshl", OpLShr: "bvlshr", OpAShr: "bvashr", OpNeg: "bvneg", OpBNot: "bvnot",
	OpULt: "bvult", OpULe: "bvule", OpSLt: "bvslt", OpSLe: "bvsle", OpConcat: "concat",
}

type Term struct {
	Op   Op
	W    int // 0 = Bool
	C    uint64
	Name string
	Args []*Term
	Hi   int
	Lo   int
	CL   bool // ite-tree whose leaves are all constants ("constant-leaved")
	id   uint64
}

var termCounter uint64

func nextTermID() uint64 { termCounter++; return termCounter }

func mask(w int) uint64 {
	if w >= 64 {
		return ^uint64(0)
	}
	return (uint64(1) << uint(w)) - 1
}

func (t *Term) IsConst() bool { return t.Op == OpConst }
func (t *Term) IsBool() bool  { return t.W == 0 }
func (t *Term) IsTrue() bool  { return t.Op == OpConst && t.W == 0 && t.C == 1 }
func (t *Term) IsFalse() bool { return t.Op == OpConst && t.W == 0 && t.C == 0 }

// signed value of constant
func (t *Term) SVal() int64 { return sext(t.C, t.W) }

func sext(c uint64, w int) int64 {
	if w >= 64 {
		return int64(c)
	}
	if c&(uint64(1)<<uint(w-1)) != 0 {
		return int64(c | ^mask(w))
	}
	return int64(c)
}

var (
	tTrue  = &Term{Op: OpConst, W: 0, C: 1}
	tFalse = &Term{Op: OpConst, W: 0, C: 0}
)

var smallConsts [65][257]*Term

func BV(w int, c uint64) *Term {
	c &= mask(w)
	if c <= 256 {
		if t := smallConsts[w][c]; t != nil {
			return t
		}
		t := &Term{Op: OpConst, W: w, C: c}
		smallConsts[w][c] = t
		return t
	}
	return &Term{Op: OpConst, W: w, C: c}
}

func Bool(b bool) *Term {
	if b {
		return tTrue
	}
	return tFalse
}

func Var(name string, w int) *Term { return &Term{Op: OpVar, W: w, Name: name} }

func mk(op Op, w int, args ...*Term) *Term { return &Term{Op: op, W: w, Args: args} }

func Not(a *Term) *Term {
	if a.IsConst() {
		return Bool(a.C == 0)
	}
	if a.Op == OpNot {
		return a.Args[0]
	}
	return mk(OpNot, 0, a)
}

func And(a, b *Term) *Term {
	if a.IsConst() {
		if a.C == 1 {
			return b
		}
		return tFalse
	}
	if b.IsConst() {
		if b.C == 1 {
			return a
		}
		return tFalse
	}
	if a == b {
		return a
	}
	return mk(OpAnd, 0, a, b)
}

func Or(a, b *Term) *Term {
	if a.IsConst() {
		if a.C == 1 {
			return tTrue
		}
		return b
	}
	if b.IsConst() {
		if b.C == 1 {
			return tTrue
		}
		return a
	}
	if a == b {
		return a
	}
	// (k1 <= x) or (k2 <= x) = min(k1,k2) <= x
	if a.Op == OpULe && b.Op == OpULe && a.Args[1] == b.Args[1] && a.Args[0].IsConst() && b.Args[0].IsConst() {
		if a.Args[0].C <= b.Args[0].C {
			return a
		}
		return b
	}
	return mk(OpOr, 0, a, b)
}

func Ite(c, a, b *Term) *Term {
	if c.IsConst() {
		if c.C == 1 {
			return a
		}
		return b
	}
	if a == b {
		return a
	}
	if a.IsConst() && b.IsConst() && a.W == b.W && a.C == b.C {
		return a
	}
	if a.W == 0 {
		if a.IsTrue() && b.IsFalse() {
			return c
		}
		if a.IsFalse() && b.IsTrue() {
			return Not(c)
		}
	}
	// ite(c, k, ite(c2, k, r)) = ite(c or c2, k, r)
	if a.IsConst() && b.Op == OpIte && b.Args[1].IsConst() && b.Args[1].W == a.W && b.Args[1].C == a.C {
		return Ite(Or(c, b.Args[0]), a, b.Args[2])
	}
	t := mk(OpIte, a.W, c, a, b)
	t.CL = (a.IsConst() || a.CL) && (b.IsConst() || b.CL)
	return t
}

// mapLeaves rebuilds a constant-leaved ite-tree with f applied to every leaf.
func mapLeaves(t *Term, f func(*Term) *Term) *Term {
	if t.IsConst() {
		return f(t)
	}
	return Ite(t.Args[0], mapLeaves(t.Args[1], f), mapLeaves(t.Args[2], f))
}

func Eq(a, b *Term) *Term {
	if a.W != b.W {
		panic(fmt.Sprintf("Eq width mismatch %d %d", a.W, b.W))
	}
	if a.IsConst() && b.IsConst() {
		return Bool(a.C == b.C)
	}
	if a == b {
		return tTrue
	}
	if a.W == 0 {
		if a.IsConst() {
			if a.C == 1 {
				return b
			}
			return Not(b)
		}
		if b.IsConst() {
			if b.C == 1 {
				return a
			}
			return Not(a)
		}
	}
	if a.CL && b.IsConst() {
		return mapLeaves(a, func(l *Term) *Term { return Eq(l, b) })
	}
	if b.IsConst() && a.W > 0 && b.C&^maybeOnes(a, 0) != 0 {
		return tFalse
	}
	if a.IsConst() && b.W > 0 && a.C&^maybeOnes(b, 0) != 0 {
		return tFalse
	}
	if b.CL && a.IsConst() {
		return mapLeaves(b, func(l *Term) *Term { return Eq(a, l) })
	}
	// zext(x) == const  -> narrow
	if b.IsConst() && a.Op == OpZExt {
		in := a.Args[0]
		if b.C&^mask(in.W) != 0 {
			return tFalse
		}
		return Eq(in, BV(in.W, b.C))
	}
	if a.IsConst() && b.Op == OpZExt {
		return Eq(b, a)
	}
	return mk(OpEq, 0, a, b)
}

func binFold(op Op, w int, x, y uint64) (uint64, bool) {
	m := mask(w)
	switch op {
	case OpAdd:
		return (x + y) & m, true
	case OpSub:
		return (x - y) & m, true
	case OpMul:
		return (x * y) & m, true
	case OpUDiv:
		if y == 0 {
			return m, true
		}
		return x / y, true
	case OpURem:
		if y == 0 {
			return x, true
		}
		return x % y, true
	case OpSDiv:
		sx, sy := sext(x, w), sext(y, w)
		if sy == 0 {
			if sx < 0 {
				return 1, true
			}
			return m, true
		}
		if sy == -1 {
			return uint64(-sx) & m, true
		}
		return uint64(sx/sy) & m, true
	case OpSRem:
		sx, sy := sext(x, w), sext(y, w)
		if sy == 0 {
			return x, true
		}
		if sy == -1 {
			return 0, true
		}
		return uint64(sx%sy) & m, true
	case OpBAnd:
		return x & y, true
	case OpBOr:
		return x | y, true
	case OpBXor:
		return x ^ y, true
	case OpShl:
		if y >= uint64(w) {
			return 0, true
		}
		return (x << y) & m, true
	case OpLShr:
		if y >= uint64(w) {
			return 0, true
		}
		return x >> y, true
	case OpAShr:
		sx := sext(x, w)
		if y >= uint64(w) {
			if sx < 0 {
				return m, true
			}
			return 0, true
		}
		return uint64(sx>>y) & m, true
	}
	return 0, false
}

func BinBV(op Op, a, b *Term) *Term {
	if a.W != b.W || a.W == 0 {
		panic(fmt.Sprintf("BinBV %s width mismatch %d %d", opNames[op], a.W, b.W))
	}
	w := a.W
	if a.IsConst() && b.IsConst() {
		if c, ok := binFold(op, w, a.C, b.C); ok {
			return BV(w, c)
		}
	}
	if a.CL && b.IsConst() {
		return mapLeaves(a, func(l *Term) *Term { return BinBV(op, l, b) })
	}
	if b.CL && a.IsConst() {
		return mapLeaves(b, func(l *Term) *Term { return BinBV(op, a, l) })
	}
	switch op {
	case OpAdd:
		if a.IsConst() && a.C == 0 {
			return b
		}
		if b.IsConst() && b.C == 0 {
			return a
		}
	case OpSub:
		if b.IsConst() && b.C == 0 {
			return a
		}
		if a == b {
			return BV(w, 0)
		}
	case OpMul:
		if a.IsConst() && a.C == 1 {
			return b
		}
		if b.IsConst() && b.C == 1 {
			return a
		}
		if (a.IsConst() && a.C == 0) || (b.IsConst() && b.C == 0) {
			return BV(w, 0)
		}
	case OpBAnd:
		if a.IsConst() && a.C == 0 || b.IsConst() && b.C == 0 {
			return BV(w, 0)
		}
		if a.IsConst() && !b.IsConst() {
			a, b = b, a
		}
		if b.IsConst() {
			if maybeOnes(a, 0)&b.C == 0 {
				return BV(w, 0)
			}
			// (k | y) & c  =  (k & c) | (y & c)
			if a.Op == OpBOr && (a.Args[0].IsConst() || a.Args[1].IsConst()) {
				return BinBV(OpBOr, BinBV(OpBAnd, a.Args[0], b), BinBV(OpBAnd, a.Args[1], b))
			}
			// (y & c1) & c2 = y & (c1 & c2)
			if a.Op == OpBAnd && a.Args[1].IsConst() {
				return BinBV(OpBAnd, a.Args[0], BV(w, a.Args[1].C&b.C))
			}
			if maybeOnes(a, 0)&^b.C == 0 {
				return a
			}
		}
		if a.IsConst() && a.C == mask(w) {
			return b
		}
		if b.IsConst() && b.C == mask(w) {
			return a
		}
		if a == b {
			return a
		}
	case OpBOr, OpBXor:
		if a.IsConst() && a.C == 0 {
			return b
		}
		if b.IsConst() && b.C == 0 {
			return a
		}
	case OpShl, OpLShr, OpAShr:
		if b.IsConst() && b.C == 0 {
			return a
		}
	}
	return mk(op, w, a, b)
}

func CmpBV(op Op, a, b *Term) *Term {
	if a.W != b.W || a.W == 0 {
		panic(fmt.Sprintf("CmpBV width mismatch %d %d", a.W, b.W))
	}
	if a.IsConst() && b.IsConst() {
		switch op {
		case OpULt:
			return Bool(a.C < b.C)
		case OpULe:
			return Bool(a.C <= b.C)
		case OpSLt:
			return Bool(a.SVal() < b.SVal())
		case OpSLe:
			return Bool(a.SVal() <= b.SVal())
		}
	}
	if a == b {
		return Bool(op == OpULe || op == OpSLe)
	}
	if a.CL && b.IsConst() {
		return mapLeaves(a, func(l *Term) *Term { return CmpBV(op, l, b) })
	}
	if b.CL && a.IsConst() {
		return mapLeaves(b, func(l *Term) *Term { return CmpBV(op, a, l) })
	}
	return mk(op, 0, a, b)
}

func Neg(a *Term) *Term {
	if a.IsConst() {
		return BV(a.W, -a.C)
	}
	return mk(OpNeg, a.W, a)
}

func BNot(a *Term) *Term {
	if a.IsConst() {
		return BV(a.W, ^a.C)
	}
	return mk(OpBNot, a.W, a)
}

func ZExt(a *Term, w int) *Term {
	if w == a.W {
		return a
	}
	if w < a.W {
		return Extract(a, w-1, 0)
	}
	if a.IsConst() {
		return BV(w, a.C)
	}
	if a.CL {
		return mapLeaves(a, func(l *Term) *Term { return ZExt(l, w) })
	}
	t := mk(OpZExt, w, a)
	return t
}

func SExt(a *Term, w int) *Term {
	if w == a.W {
		return a
	}
	if w < a.W {
		return Extract(a, w-1, 0)
	}
	if a.IsConst() {
		return BV(w, uint64(a.SVal()))
	}
	if a.CL {
		return mapLeaves(a, func(l *Term) *Term { return SExt(l, w) })
	}
	return mk(OpSExt, w, a)
}

func Extract(a *Term, hi, lo int) *Term {
	w := hi - lo + 1
	if lo == 0 && w == a.W {
		return a
	}
	if a.IsConst() {
		return BV(w, a.C>>uint(lo))
	}
	if a.CL {
		return mapLeaves(a, func(l *Term) *Term { return Extract(l, hi, lo) })
	}
	if (a.Op == OpZExt || a.Op == OpSExt) && lo == 0 && w <= a.Args[0].W {
		return Extract(a.Args[0], hi, 0)
	}
	if a.Op == OpZExt && lo >= a.Args[0].W {
		return BV(w, 0)
	}
	t := mk(OpExtract, w, a)
	t.Hi, t.Lo = hi, lo
	return t
}

func Concat(hi, lo *Term) *Term {
	if hi.IsConst() && lo.IsConst() {
		return BV(hi.W+lo.W, hi.C<<uint(lo.W)|lo.C)
	}
	return mk(OpConcat, hi.W+lo.W, hi, lo)
}

// ---------------------------------------------------------------- evaluation under a model

type Model map[string]uint64

func (t *Term) Eval(m Model, cache map[*Term]uint64) uint64 {
	if t.Op == OpConst {
		return t.C
	}
	if v, ok := cache[t]; ok {
		return v
	}
	var r uint64
	switch t.Op {
	case OpVar:
		r = m[t.Name] & maskB(t.W)
	case OpNot:
		r = 1 - t.Args[0].Eval(m, cache)
	case OpAnd:
		r = t.Args[0].Eval(m, cache) & t.Args[1].Eval(m, cache)
	case OpOr:
		r = t.Args[0].Eval(m, cache) | t.Args[1].Eval(m, cache)
	case OpIte:
		if t.Args[0].Eval(m, cache) == 1 {
			r = t.Args[1].Eval(m, cache)
		} else {
			r = t.Args[2].Eval(m, cache)
		}
	case OpEq:
		r = b2u(t.Args[0].Eval(m, cache) == t.Args[1].Eval(m, cache))
	case OpULt:
		r = b2u(t.Args[0].Eval(m, cache) < t.Args[1].Eval(m, cache))
	case OpULe:
		r = b2u(t.Args[0].Eval(m, cache) <= t.Args[1].Eval(m, cache))
	case OpSLt:
		w := t.Args[0].W
		r = b2u(sext(t.Args[0].Eval(m, cache), w) < sext(t.Args[1].Eval(m, cache), w))
	case OpSLe:
		w := t.Args[0].W
		r = b2u(sext(t.Args[0].Eval(m, cache), w) <= sext(t.Args[1].Eval(m, cache), w))
	case OpNeg:
		r = (-t.Args[0].Eval(m, cache)) & mask(t.W)
	case OpBNot:
		r = (^t.Args[0].Eval(m, cache)) & mask(t.W)
	case OpZExt:
		r = t.Args[0].Eval(m, cache)
	case OpSExt:
		r = uint64(sext(t.Args[0].Eval(m, cache), t.Args[0].W)) & mask(t.W)
	case OpExtract:
		r = (t.Args[0].Eval(m, cache) >> uint(t.Lo)) & mask(t.W)
	case OpConcat:
		r = t.Args[0].Eval(m, cache)<<uint(t.Args[1].W) | t.Args[1].Eval(m, cache)
	default:
		x, y := t.Args[0].Eval(m, cache), t.Args[1].Eval(m, cache)
		v, ok := binFold(t.Op, t.W, x, y)
		if !ok {
			panic("eval: unknown op")
		}
		r = v
	}
	cache[t] = r
	return r
}

func maskB(w int) uint64 {
	if w == 0 {
		return 1
	}
	return mask(w)
}

func b2u(b bool) uint64 {
	if b {
		return 1
	}
	return 0
}

// ---------------------------------------------------------------- SMT-LIB printing

func sortStr(w int) string {
	if w == 0 {
		return "Bool"
	}
	return fmt.Sprintf("(_ BitVec %d)", w)
}

func constStr(t *Term) string {
	if t.W == 0 {
		if t.C == 1 {
			return "true"
		}
		return "false"
	}
	if t.W%4 == 0 {
		return fmt.Sprintf("#x%0*x", t.W/4, t.C)
	}
	return fmt.Sprintf("#b%0*b", t.W, t.C)
}

// hasNonlinear reports whether the term DAG contains mul/div/rem by a non-power-of-two constant
// or by a symbolic operand (routed to the integer-encoding back end).
func hasNonlinear(t *Term, seen map[*Term]bool) bool {
	if t.Op == OpConst || t.Op == OpVar || seen[t] {
		return false
	}
	seen[t] = true
	switch t.Op {
	case OpMul, OpUDiv, OpURem, OpSDiv, OpSRem:
		for _, a := range t.Args {
			if !a.IsConst() {
				continue
			}
			if bits.OnesCount64(a.C) > 1 {
				return true
			}
		}
		if !t.Args[0].IsConst() && !t.Args[1].IsConst() {
			return true
		}
	}
	for _, a := range t.Args {
		if hasNonlinear(a, seen) {
			return true
		}
	}
	return false
}

func (t *Term) String() string {
	var sb strings.Builder
	t.write(&sb, 0)
	return sb.String()
}

func (t *Term) write(sb *strings.Builder, depth int) {
	if depth > 6 {
		sb.WriteString("…")
		return
	}
	switch t.Op {
	case OpConst:
		sb.WriteString(constStr(t))
	case OpVar:
		sb.WriteString(t.Name)
	case OpZExt:
		fmt.Fprintf(sb, "(zext%d ", t.W)
		t.Args[0].write(sb, depth+1)
		sb.WriteString(")")
	case OpSExt:
		fmt.Fprintf(sb, "(sext%d ", t.W)
		t.Args[0].write(sb, depth+1)
		sb.WriteString(")")
	case OpExtract:
		fmt.Fprintf(sb, "(extract[%d:%d] ", t.Hi, t.Lo)
		t.Args[0].write(sb, depth+1)
		sb.WriteString(")")
	default:
		sb.WriteString("(" + opNames[t.Op])
		for _, a := range t.Args {
			sb.WriteString(" ")
			a.write(sb, depth+1)
		}
		sb.WriteString(")")
	}
}

// maybeOnes over-approximates the set of bits of a bit-vector term that can be 1.
func maybeOnes(t *Term, depth int) uint64 {
	m := mask(t.W)
	if depth > 8 {
		return m
	}
	switch t.Op {
	case OpConst:
		return t.C
	case OpBAnd:
		return maybeOnes(t.Args[0], depth+1) & maybeOnes(t.Args[1], depth+1)
	case OpBOr, OpBXor:
		return maybeOnes(t.Args[0], depth+1) | maybeOnes(t.Args[1], depth+1)
	case OpZExt:
		return maybeOnes(t.Args[0], depth+1)
	case OpIte:
		return maybeOnes(t.Args[1], depth+1) | maybeOnes(t.Args[2], depth+1)
	case OpShl:
		if t.Args[1].IsConst() && t.Args[1].C < 64 {
			return (maybeOnes(t.Args[0], depth+1) << t.Args[1].C) & m
		}
	case OpLShr:
		if t.Args[1].IsConst() && t.Args[1].C < 64 {
			return maybeOnes(t.Args[0], depth+1) >> t.Args[1].C
		}
	case OpExtract:
		return (maybeOnes(t.Args[0], depth+1) >> uint(t.Lo)) & m
	}
	return m
}
