package main

import (
	"fmt"
	"go/constant"
	"go/token"
	"go/types"
	"sync"

	"golang.org/x/tools/go/ssa"
)

// ---------------------------------------------------------------- program-wide (shared, read-only after load)

type fnInfo struct {
	reg map[ssa.Value]int
	n   int
}

type Program struct {
	prog     *ssa.Program
	pkgs     map[string]*ssa.Package // by import path
	infoMu   sync.Mutex
	infos    map[*ssa.Function]*fnInfo
	replace  map[string]*ssa.Function // fully-qualified callee name -> model function
	initOK   map[string]bool          // packages whose init is interpreted
	vPkgPath string                   // harness API package path
}

func (p *Program) info(fn *ssa.Function) *fnInfo {
	p.infoMu.Lock()
	defer p.infoMu.Unlock()
	if fi, ok := p.infos[fn]; ok {
		return fi
	}
	fi := &fnInfo{reg: make(map[ssa.Value]int)}
	add := func(v ssa.Value) {
		fi.reg[v] = fi.n
		fi.n++
	}
	for _, p := range fn.Params {
		add(p)
	}
	for _, fv := range fn.FreeVars {
		add(fv)
	}
	for _, b := range fn.Blocks {
		for _, in := range b.Instrs {
			if v, ok := in.(ssa.Value); ok {
				add(v)
			}
		}
	}
	p.infos[fn] = fi
	return fi
}

// ---------------------------------------------------------------- execution state

type deferRec struct {
	fn   Value // *FuncVal or builtin
	args []Value
	call *ssa.CallCommon
}

type panicState struct {
	val       Value
	recovered bool
	msg       string
	where     string
}

const (
	retStore   = iota // store result in caller register, advance caller
	retDiscard        // discard, do not advance caller (RunDefers loop / panic unwinding)
	retGo             // bottom frame of a goroutine
)

type Frame struct {
	fn      *ssa.Function
	info    *fnInfo
	regs    []Value
	block   *ssa.BasicBlock
	prev    *ssa.BasicBlock
	ip      int
	defers  []*deferRec
	retMode int
	callReg ssa.Value  // in the caller frame
	panicSt *panicState // set when this frame is a deferred call run during unwinding of panicSt
	initMode bool
	recovering bool // a panic was recovered in this frame: finish defers then leave through Recover block
}

type Goroutine struct {
	id      int
	frames  []*Frame
	done    bool
	blocked func() bool // non-nil: goroutine waits until it returns true, then re-executes its instruction
	sel     *selState
	panic   *panicState
	why     string
	yielded bool
	lowPrio bool
	noPreemptAt ssa.Instruction // the visible operation at which this goroutine was already offered a preemption
	vc          vclock          // happens-before clock (race detection)
}

type undoRec struct {
	c   *Cell
	old Value
	m   *MapObj
	mk  []Value
	mv  []Value
}

type Decision struct {
	K int
	V uint64
}

type pathEnd struct {
	kind string // "done", "infeasible", "unsupported", "budget", "deadlock", "panic", "stop"
	msg  string
}

type Exec struct {
	P       *Program
	S       *Solver
	schedBound  int        // delay bound for schedule exploration (0: one cooperative schedule)
	schedBudget int        // delays left on the current path
	schedRev    bool       // base schedule prefers the youngest runnable goroutine
	raceOn      bool
	race        *raceState
	trackedCache map[*ssa.Function]bool
	forcePick   *Goroutine // goroutine chosen by a preemption decision
	schedPoints int        // preemption decisions offered on the current path
	globals map[*ssa.Global]*Cell
	epoch   int32
	undo    []undoRec
	mapUndone map[*MapObj]bool
	backingSeq int

	// per path
	gs       []*Goroutine
	cur      *Goroutine
	pc       []*Term
	prefix   []Decision
	pos      int
	dec      []Decision
	model    Model
	modelOK  bool
	steps    int
	nameCnt  map[string]int
	vars     []*Term
	covers   map[string]bool
	observes []observed
	viol     []*Violation
	mutexes  map[*Cell]*mutexState
	wgs      map[*Cell]*int64
	forks    int
	assertsChecked int
	initDone bool
	inInit   bool

	// configuration
	maxSteps int
	X        *Explorer
	callCount map[string]int
	stubHits  map[string]int
	sample    *SamplePath
	sampleSlot int
	forkSites map[string]int
	allocLimit int
}

type observed struct {
	name string
	val  Value
}

type Violation struct {
	Msg     string
	Model   Model
	Kind    string // "assert", "panic", "deadlock"
	Dec     []Decision
	Observes map[string]string
}

func (e *Exec) endPath(kind, msg string) {
	panic(pathEnd{kind, msg})
}

// ---------------------------------------------------------------- constants and operands

func (e *Exec) constValue(c *ssa.Const) Value {
	t := c.Type()
	if c.Value == nil {
		return zeroValue(t)
	}
	if w, signed, ok := intW(t); ok {
		if w == 0 {
			return Bool(constant.BoolVal(c.Value))
		}
		v := constant.ToInt(c.Value)
		if signed {
			i, _ := constant.Int64Val(v)
			return BV(w, uint64(i))
		}
		u, ok := constant.Uint64Val(v)
		if !ok {
			i, _ := constant.Int64Val(v)
			u = uint64(i)
		}
		return BV(w, u)
	}
	if isString(t) {
		return strOf(constant.StringVal(c.Value))
	}
	if isFloat(t) {
		f, _ := constant.Float64Val(c.Value)
		return FloatVal{f}
	}
	if _, ok := t.Underlying().(*types.Interface); ok {
		return IfaceVal{}
	}
	unsup("constant of type %s", t)
	return nil
}

func (e *Exec) globalCell(g *ssa.Global) *Cell {
	if c, ok := e.globals[g]; ok {
		return c
	}
	pt := g.Type().(*types.Pointer)
	save := e.epoch
	e.epoch = 0 // globals belong to the pre-path world
	c := e.newCell(pt.Elem())
	e.epoch = save
	c.gname = g.String()
	e.globals[g] = c
	return c
}

func (e *Exec) get(fr *Frame, v ssa.Value) Value {
	switch x := v.(type) {
	case *ssa.Const:
		return e.constValue(x)
	case *ssa.Global:
		return Ptr{e.globalCell(x)}
	case *ssa.Function:
		return &FuncVal{Fn: x}
	case *ssa.Builtin:
		return &FuncVal{Bi: x}
	}
	i, ok := fr.info.reg[v]
	if !ok {
		panic(fmt.Sprintf("no register for %s in %s", v.Name(), fr.fn))
	}
	return fr.regs[i]
}

func (e *Exec) set(fr *Frame, v ssa.Value, val Value) {
	fr.regs[fr.info.reg[v]] = val
}

// ---------------------------------------------------------------- panics

type goPanicSignal struct{ st *panicState }

// goPanic raises a Go-level panic in the current goroutine (caught by the step loop).
func (e *Exec) goPanic(msg string) {
	panic(goPanicSignal{&panicState{val: IfaceVal{T: types.Typ[types.String], V: strOf(msg)}, msg: msg}})
}

// ---------------------------------------------------------------- frames

func (e *Exec) pushFrame(g *Goroutine, fn *ssa.Function, args []Value, bind []Value, retMode int, callReg ssa.Value) *Frame {
	if len(g.frames) > 400 {
		e.endPath("budget", "call depth exceeded in "+fn.String())
	}
	info := e.P.info(fn)
	fr := &Frame{fn: fn, info: info, regs: make([]Value, info.n), retMode: retMode, callReg: callReg}
	if len(args) != len(fn.Params) {
		panic(fmt.Sprintf("call %s: %d args for %d params", fn, len(args), len(fn.Params)))
	}
	for i, p := range fn.Params {
		fr.regs[info.reg[p]] = args[i]
	}
	for i, fv := range fn.FreeVars {
		fr.regs[info.reg[fv]] = bind[i]
	}
	fr.block = fn.Blocks[0]
	if len(g.frames) > 0 {
		fr.initMode = g.frames[len(g.frames)-1].initMode
	}
	g.frames = append(g.frames, fr)
	if e.callCount != nil {
		e.callCount[fn.String()]++
	}
	return fr
}

// finishCall delivers the result of a completed call to the frame below.
func (e *Exec) popFrame(g *Goroutine, result Value) {
	fr := g.frames[len(g.frames)-1]
	g.frames = g.frames[:len(g.frames)-1]
	switch fr.retMode {
	case retGo:
		g.done = true
	case retStore:
		caller := g.frames[len(g.frames)-1]
		if fr.callReg != nil {
			e.set(caller, fr.callReg, result)
		}
		caller.ip++
	case retDiscard:
		// caller re-executes its current instruction (RunDefers) or the unwinder continues
	}
}

// ---------------------------------------------------------------- the step loop

func (e *Exec) runGoroutine(g *Goroutine) {
	e.cur = g
	for !g.done && g.blocked == nil {
		if g.panic != nil {
			e.unwindStep(g)
			continue
		}
		e.stepSafe(g)
	}
}

func (e *Exec) stepSafe(g *Goroutine) {
	defer func() {
		if r := recover(); r != nil {
			if len(g.frames) > 0 && g.frames[len(g.frames)-1].initMode {
				if _, isEnd := r.(pathEnd); !isEnd {
					e.skipInitFailure(g, r)
					return
				}
			}
			if ps, ok := r.(goPanicSignal); ok {
				g.panic = ps.st
				if debugStacks {
					for i := len(g.frames) - 1; i >= 0 && i > len(g.frames)-12; i-- {
						fr := g.frames[i]
						pos := ""
						if fr.ip < len(fr.block.Instrs) {
							pos = e.P.prog.Fset.Position(fr.block.Instrs[fr.ip].Pos()).String()
						}
						ps.st.where += fmt.Sprintf("   #%d %s %s\n", i, fr.fn, pos)
					}
				}
				return
			}
			panic(r)
		}
	}()
	for i := 0; i < 256 && !g.done && g.blocked == nil && g.panic == nil; i++ {
		e.step(g)
	}
}

// unwindStep performs one step of panic unwinding for g.
func (e *Exec) unwindStep(g *Goroutine) {
	if len(g.frames) == 0 {
		e.uncaughtPanic(g)
		return
	}
	fr := g.frames[len(g.frames)-1]
	st := g.panic
	if fr.panicSt != nil && fr.retMode == retDiscard && fr.panicSt != st {
		// a deferred call (run for an earlier panic) panicked itself: new panic replaces it; keep unwinding
	}
	if st.recovered {
		// the deferred call that recovered has returned; fr is the frame that deferred it
		g.panic = nil
		fr.recovering = true
		e.finishRecovered(g, fr)
		return
	}
	if len(fr.defers) > 0 {
		d := fr.defers[len(fr.defers)-1]
		fr.defers = fr.defers[:len(fr.defers)-1]
		g.panic = nil // the deferred call runs normally; the panic is parked in the frame
		e.invokeDeferred(g, d, st)
		// when that call returns, continueUnwind is triggered through fr.pendingPanic
		return
	}
	// no more defers here: drop the frame
	g.frames = g.frames[:len(g.frames)-1]
	if fr.retMode == retGo || len(g.frames) == 0 {
		e.uncaughtPanic(g)
	}
}

func (e *Exec) uncaughtPanic(g *Goroutine) {
	if debugStacks && g.panic != nil {
		fmt.Printf("uncaught panic %s; raised at:\n%s", g.panic.msg, g.panic.where)
	}
	msg := "panic"
	if g.panic != nil {
		msg = g.panic.msg
		if msg == "" {
			msg = "panic: " + describe(g.panic.val)
		}
	}
	e.endPath("panic", msg)
}

// invokeDeferred runs d on top of g's stack. If st != nil the call happens during unwinding of st.
func (e *Exec) invokeDeferred(g *Goroutine, d *deferRec, st *panicState) {
	fv := d.fn.(*FuncVal)
	if fv == nil {
		e.goPanic("runtime error: invalid memory address or nil pointer dereference (nil deferred func)")
	}
	parent := g.frames[len(g.frames)-1]
	if fv.Bi != nil {
		e.callBuiltin(parent, fv.Bi, d.args, d.call, st)
		if st != nil {
			g.panic = st
		}
		return
	}
	var fr *Frame
	if h := e.lookupIntrinsic(fv.Fn); h != nil {
		_, status := h(e, parent, fv.Fn, d.args)
		if status == stBlocked {
			unsup("deferred call to blocking intrinsic %s", fv.Fn)
		}
		if st != nil {
			g.panic = st
		}
		return
	}
	target := e.resolveModel(fv.Fn)
	if target.Blocks == nil {
		if parent.initMode {
			if st != nil {
				g.panic = st
			}
			return
		}
		unsup("deferred call to external %s", target)
	}
	fr = e.pushFrame(g, target, d.args, fv.Bind, retDiscard, nil)
	fr.panicSt = st
}

// finishRecovered: frame fr recovered from a panic: run remaining defers, then leave via Recover block.
func (e *Exec) finishRecovered(g *Goroutine, fr *Frame) {
	if len(fr.defers) > 0 {
		d := fr.defers[len(fr.defers)-1]
		fr.defers = fr.defers[:len(fr.defers)-1]
		e.invokeDeferred(g, d, nil)
		return
	}
	fr.recovering = false
	if fr.fn.Recover != nil {
		fr.prev = fr.block
		fr.block = fr.fn.Recover
		fr.ip = 0
		return
	}
	// no named results: return zero values
	var res Value
	rs := fr.fn.Signature.Results()
	switch rs.Len() {
	case 0:
	case 1:
		res = zeroValue(rs.At(0).Type())
	default:
		res = zeroValue(rs)
	}
	e.popFrame(g, res)
}

func (e *Exec) step(g *Goroutine) {
	fr := g.frames[len(g.frames)-1]
	if fr.recovering {
		e.finishRecovered(g, fr)
		return
	}
	e.steps++
	if e.steps > e.maxSteps {
		e.endPath("budget", fmt.Sprintf("instruction budget %d exceeded in %s", e.maxSteps, fr.fn))
	}
	instr := fr.block.Instrs[fr.ip]
	if g.noPreemptAt != nil {
		g.noPreemptAt = nil // resumed after a preemption: the operation itself runs now
	} else if e.schedBudget > 0 && !e.inInit && isVisibleOp(instr) {
		if e.offerPreemption(g, instr) {
			return
		}
	}
	switch in := instr.(type) {
	case *ssa.DebugRef:
		fr.ip++
	case *ssa.Alloc:
		c := e.newCell(in.Type().(*types.Pointer).Elem())
		e.set(fr, in, Ptr{c})
		fr.ip++
	case *ssa.Phi:
		// all phis of a block are evaluated in parallel on block entry
		e.doPhis(fr)
	case *ssa.Store:
		p := e.get(fr, in.Addr).(Ptr)
		if p.C == nil {
			e.goPanic("runtime error: invalid memory address or nil pointer dereference")
		}
		e.raceCell(p.C, true, fr)
		e.store(p.C, e.get(fr, in.Val))
		fr.ip++
	case *ssa.UnOp:
		e.unop(g, fr, in)
	case *ssa.BinOp:
		e.set(fr, in, e.binop(in.Op, in.X.Type(), e.get(fr, in.X), e.get(fr, in.Y), in.Y.Type()))
		fr.ip++
	case *ssa.Call:
		e.doCall(g, fr, in, &in.Call, retStore)
	case *ssa.Go:
		e.doGo(g, fr, &in.Call)
		fr.ip++
	case *ssa.Defer:
		fnv, args := e.prepareCall(fr, &in.Call)
		fr.defers = append(fr.defers, &deferRec{fn: fnv, args: args, call: &in.Call})
		fr.ip++
	case *ssa.RunDefers:
		if len(fr.defers) > 0 {
			d := fr.defers[len(fr.defers)-1]
			fr.defers = fr.defers[:len(fr.defers)-1]
			e.invokeDeferred(g, d, nil)
			return
		}
		fr.ip++
	case *ssa.Return:
		var res Value
		switch len(in.Results) {
		case 0:
		case 1:
			res = e.get(fr, in.Results[0])
		default:
			tv := make(TupleVal, len(in.Results))
			for i, r := range in.Results {
				tv[i] = e.get(fr, r)
			}
			res = tv
		}
		e.returnFrom(g, fr, res)
	case *ssa.Jump:
		e.jump(fr, fr.block.Succs[0])
	case *ssa.If:
		c := e.get(fr, in.Cond).(*Term)
		if e.branch(c) {
			e.jump(fr, fr.block.Succs[0])
		} else {
			e.jump(fr, fr.block.Succs[1])
		}
	case *ssa.Panic:
		v := e.get(fr, in.X)
		msg := "panic: " + e.panicText(v)
		panic(goPanicSignal{&panicState{val: v, msg: msg}})
	case *ssa.FieldAddr:
		p := e.get(fr, in.X).(Ptr)
		if p.C == nil {
			e.goPanic("runtime error: invalid memory address or nil pointer dereference")
		}
		e.set(fr, in, Ptr{p.C.Sub[in.Field]})
		fr.ip++
	case *ssa.Field:
		a := e.get(fr, in.X).(*AggVal)
		e.set(fr, in, a.F[in.Field])
		fr.ip++
	case *ssa.IndexAddr:
		e.indexAddr(fr, in)
		fr.ip++
	case *ssa.Index:
		e.index(fr, in)
		fr.ip++
	case *ssa.Slice:
		e.sliceOp(fr, in)
		fr.ip++
	case *ssa.MakeSlice:
		e.makeSlice(fr, in)
		fr.ip++
	case *ssa.MakeMap:
		mt := in.Type().Underlying().(*types.Map)
		e.set(fr, in, MapVal{&MapObj{KT: mt.Key(), VT: mt.Elem(), epoch: e.epoch}})
		fr.ip++
	case *ssa.MakeChan:
		sz := e.concretize(e.get(fr, in.Size).(*Term))
		ct := in.Type().Underlying().(*types.Chan)
		e.set(fr, in, ChanVal{&ChanObj{cap: int(sz), elem: ct.Elem()}})
		fr.ip++
	case *ssa.MakeClosure:
		fn := in.Fn.(*ssa.Function)
		bind := make([]Value, len(in.Bindings))
		for i, b := range in.Bindings {
			bind[i] = e.get(fr, b)
		}
		e.set(fr, in, &FuncVal{Fn: fn, Bind: bind})
		fr.ip++
	case *ssa.MakeInterface:
		e.set(fr, in, IfaceVal{T: in.X.Type(), V: e.get(fr, in.X)})
		fr.ip++
	case *ssa.ChangeInterface:
		e.set(fr, in, e.get(fr, in.X))
		fr.ip++
	case *ssa.ChangeType:
		e.set(fr, in, e.get(fr, in.X))
		fr.ip++
	case *ssa.Convert:
		e.set(fr, in, e.convert(e.get(fr, in.X), in.X.Type(), in.Type()))
		fr.ip++
	case *ssa.MultiConvert:
		e.set(fr, in, e.convert(e.get(fr, in.X), in.X.Type(), in.Type()))
		fr.ip++
	case *ssa.SliceToArrayPointer:
		e.sliceToArrayPtr(fr, in)
		fr.ip++
	case *ssa.TypeAssert:
		e.typeAssert(fr, in)
		fr.ip++
	case *ssa.Extract:
		tv := e.get(fr, in.Tuple).(TupleVal)
		e.set(fr, in, tv[in.Index])
		fr.ip++
	case *ssa.Lookup:
		if mv, ok := e.get(fr, in.X).(MapVal); ok {
			e.raceMap(mv.M, false, fr)
		}
		e.lookup(fr, in)
		fr.ip++
	case *ssa.MapUpdate:
		m := e.get(fr, in.Map).(MapVal)
		if m.M == nil {
			e.goPanic("assignment to entry in nil map")
		}
		e.raceMap(m.M, true, fr)
		e.mapSet(m.M, e.get(fr, in.Key), e.get(fr, in.Value))
		fr.ip++
	case *ssa.Range:
		e.rangeOp(fr, in)
		fr.ip++
	case *ssa.Next:
		e.nextOp(fr, in)
		fr.ip++
	case *ssa.Send:
		e.chanSend(g, fr, in)
	case *ssa.Select:
		e.selectOp(g, fr, in)
	default:
		unsup("instruction %T in %s", instr, fr.fn)
	}
}

func (e *Exec) panicText(v Value) string {
	if iv, ok := v.(IfaceVal); ok {
		if iv.T == nil {
			return "nil"
		}
		if s, ok := iv.V.(StrVal); ok {
			return s.String()
		}
		return "value of type " + iv.T.String()
	}
	return describe(v)
}

func (e *Exec) jump(fr *Frame, to *ssa.BasicBlock) {
	fr.prev = fr.block
	fr.block = to
	fr.ip = 0
}

func (e *Exec) doPhis(fr *Frame) {
	// find index of prev among preds
	idx := -1
	for i, p := range fr.block.Preds {
		if p == fr.prev {
			idx = i
			break
		}
	}
	if idx < 0 {
		panic("phi: predecessor not found")
	}
	var vals []Value
	n := 0
	for _, in := range fr.block.Instrs[fr.ip:] {
		phi, ok := in.(*ssa.Phi)
		if !ok {
			break
		}
		vals = append(vals, e.get(fr, phi.Edges[idx]))
		n++
	}
	for i := 0; i < n; i++ {
		e.set(fr, fr.block.Instrs[fr.ip+i].(*ssa.Phi), vals[i])
	}
	fr.ip += n
}

func (e *Exec) returnFrom(g *Goroutine, fr *Frame, res Value) {
	if fr.panicSt != nil {
		// a deferred call made during unwinding returned: resume unwinding in the frame below
		st := fr.panicSt
		g.frames = g.frames[:len(g.frames)-1]
		g.panic = st
		return
	}
	if fr.retMode == retGo {
		g.frames = g.frames[:len(g.frames)-1]
		g.done = true
		return
	}
	e.popFrame(g, res)
}

// ---------------------------------------------------------------- unary / binary / convert

func (e *Exec) unop(g *Goroutine, fr *Frame, in *ssa.UnOp) {
	x := e.get(fr, in.X)
	switch in.Op {
	case token.MUL:
		p := x.(Ptr)
		if p.C == nil {
			e.goPanic("runtime error: invalid memory address or nil pointer dereference")
		}
		e.raceCell(p.C, false, fr)
		e.set(fr, in, e.load(p.C))
	case token.NOT:
		e.set(fr, in, Not(x.(*Term)))
	case token.SUB:
		if f, ok := x.(FloatVal); ok {
			e.set(fr, in, FloatVal{-f.F})
		} else {
			e.set(fr, in, Neg(x.(*Term)))
		}
	case token.XOR:
		e.set(fr, in, BNot(x.(*Term)))
	case token.ARROW:
		e.chanRecv(g, fr, in)
		return
	default:
		unsup("unop %s", in.Op)
	}
	fr.ip++
}

func strLess(a, b StrVal, orEq bool) *Term {
	n := len(a.B)
	if len(b.B) < n {
		n = len(b.B)
	}
	var r *Term
	if orEq {
		r = Bool(len(a.B) <= len(b.B))
	} else {
		r = Bool(len(a.B) < len(b.B))
	}
	for i := n - 1; i >= 0; i-- {
		r = Ite(Eq(a.B[i], b.B[i]), r, CmpBV(OpULt, a.B[i], b.B[i]))
	}
	return r
}

func (e *Exec) binop(op token.Token, xt types.Type, x, y Value, yt types.Type) Value {
	switch a := x.(type) {
	case *Term:
		b, ok := y.(*Term)
		if !ok {
			unsup("binop %s on term and %T", op, y)
		}
		w, signed, _ := intW(xt)
		if w == 0 && a.W == 0 {
			switch op {
			case token.EQL:
				return Eq(a, b)
			case token.NEQ:
				return Not(Eq(a, b))
			case token.AND, token.LAND:
				return And(a, b)
			case token.OR, token.LOR:
				return Or(a, b)
			}
			unsup("bool binop %s", op)
		}
		w = a.W
		switch op {
		case token.ADD:
			return BinBV(OpAdd, a, b)
		case token.SUB:
			return BinBV(OpSub, a, b)
		case token.MUL:
			return BinBV(OpMul, a, b)
		case token.QUO, token.REM:
			if e.branch(Eq(b, BV(w, 0))) {
				e.goPanic("runtime error: integer divide by zero")
			}
			if op == token.QUO {
				if signed {
					return BinBV(OpSDiv, a, b)
				}
				return BinBV(OpUDiv, a, b)
			}
			if signed {
				return BinBV(OpSRem, a, b)
			}
			return BinBV(OpURem, a, b)
		case token.AND:
			return BinBV(OpBAnd, a, b)
		case token.OR:
			return BinBV(OpBOr, a, b)
		case token.XOR:
			return BinBV(OpBXor, a, b)
		case token.AND_NOT:
			return BinBV(OpBAnd, a, BNot(b))
		case token.SHL, token.SHR:
			return e.shift(op, a, b, signed, yt)
		case token.EQL:
			return Eq(a, b)
		case token.NEQ:
			return Not(Eq(a, b))
		case token.LSS:
			if signed {
				return CmpBV(OpSLt, a, b)
			}
			return CmpBV(OpULt, a, b)
		case token.LEQ:
			if signed {
				return CmpBV(OpSLe, a, b)
			}
			return CmpBV(OpULe, a, b)
		case token.GTR:
			if signed {
				return CmpBV(OpSLt, b, a)
			}
			return CmpBV(OpULt, b, a)
		case token.GEQ:
			if signed {
				return CmpBV(OpSLe, b, a)
			}
			return CmpBV(OpULe, b, a)
		}
		unsup("int binop %s", op)
	case StrVal:
		b := y.(StrVal)
		switch op {
		case token.ADD:
			if len(a.B) == 0 {
				return b
			}
			if len(b.B) == 0 {
				return a
			}
			nb := make([]*Term, 0, len(a.B)+len(b.B))
			nb = append(nb, a.B...)
			nb = append(nb, b.B...)
			return StrVal{nb}
		case token.EQL:
			return e.valEq(a, b)
		case token.NEQ:
			return Not(e.valEq(a, b))
		case token.LSS:
			return strLess(a, b, false)
		case token.LEQ:
			return strLess(a, b, true)
		case token.GTR:
			return strLess(b, a, false)
		case token.GEQ:
			return strLess(b, a, true)
		}
		unsup("string binop %s", op)
	case FloatVal:
		b := y.(FloatVal)
		switch op {
		case token.ADD:
			return FloatVal{a.F + b.F}
		case token.SUB:
			return FloatVal{a.F - b.F}
		case token.MUL:
			return FloatVal{a.F * b.F}
		case token.QUO:
			return FloatVal{a.F / b.F}
		case token.EQL:
			return Bool(a.F == b.F)
		case token.NEQ:
			return Bool(a.F != b.F)
		case token.LSS:
			return Bool(a.F < b.F)
		case token.LEQ:
			return Bool(a.F <= b.F)
		case token.GTR:
			return Bool(a.F > b.F)
		case token.GEQ:
			return Bool(a.F >= b.F)
		}
		unsup("float binop %s", op)
	}
	switch op {
	case token.EQL:
		return e.valEq(x, y)
	case token.NEQ:
		return Not(e.valEq(x, y))
	}
	unsup("binop %s on %T", op, x)
	return nil
}

func (e *Exec) shift(op token.Token, a, b *Term, signed bool, yt types.Type) Value {
	w := a.W
	_, ysigned, _ := intW(yt)
	if ysigned {
		if e.branch(CmpBV(OpSLt, b, BV(b.W, 0))) {
			e.goPanic("runtime error: negative shift amount")
		}
	}
	// bring the count to width w, saturating
	var cnt *Term
	var big *Term = tFalse
	if b.W > w {
		big = Not(CmpBV(OpULt, b, BV(b.W, uint64(w))))
		cnt = Extract(b, w-1, 0)
	} else {
		cnt = ZExt(b, w)
	}
	var r, sat *Term
	switch {
	case op == token.SHL:
		r = BinBV(OpShl, a, cnt)
		sat = BV(w, 0)
	case signed:
		r = BinBV(OpAShr, a, cnt)
		sat = BinBV(OpAShr, a, BV(w, uint64(w-1)))
	default:
		r = BinBV(OpLShr, a, cnt)
		sat = BV(w, 0)
	}
	return Ite(big, sat, r)
}

func (e *Exec) convert(x Value, from, to types.Type) Value {
	fu, tu := from.Underlying(), to.Underlying()
	if tw, _, ok := intW(to); ok && tw > 0 {
		if t, ok := x.(*Term); ok {
			_, fsigned, _ := intW(from)
			if tw <= t.W {
				return Extract(t, tw-1, 0)
			}
			if fsigned {
				return SExt(t, tw)
			}
			return ZExt(t, tw)
		}
		if f, ok := x.(FloatVal); ok {
			return BV(tw, uint64(int64(f.F)))
		}
		if p, ok := x.(Ptr); ok { // uintptr(unsafe.Pointer)
			if p.C == nil {
				return BV(tw, 0)
			}
			unsup("pointer to integer conversion")
		}
	}
	if isFloat(to) {
		if t, ok := x.(*Term); ok {
			if !t.IsConst() {
				unsup("symbolic int to float")
			}
			_, fsigned, _ := intW(from)
			if fsigned {
				return FloatVal{float64(t.SVal())}
			}
			return FloatVal{float64(t.C)}
		}
		return x
	}
	if isString(to) {
		switch v := x.(type) {
		case StrVal:
			return v
		case SliceVal:
			// string([]byte) or string([]rune)
			if v.Back == nil {
				return StrVal{}
			}
			n := int(e.concretize(v.Len))
			el := fu.(*types.Slice).Elem()
			if w, _, _ := intW(el); w == 8 {
				b := make([]*Term, n)
				off := int(e.concretize(v.Off))
				for i := 0; i < n; i++ {
					b[i] = e.loadElem(v.Back, off+i).(*Term)
				}
				return StrVal{b}
			}
			// runes
			off := int(e.concretize(v.Off))
			rs := make([]rune, n)
			for i := 0; i < n; i++ {
				t := e.loadElem(v.Back, off+i).(*Term)
				if !t.IsConst() {
					unsup("string of symbolic runes")
				}
				rs[i] = rune(t.SVal())
			}
			return strOf(string(rs))
		case *Term:
			if v.IsConst() {
				return strOf(string(rune(v.SVal())))
			}
			unsup("string(symbolic rune)")
		}
	}
	if ts, ok := tu.(*types.Slice); ok {
		if s, ok := x.(StrVal); ok {
			if w, _, _ := intW(ts.Elem()); w == 8 {
				b := e.newBacking(ts.Elem(), len(s.B))
				for i, t := range s.B {
					e.cellAt(b, i).V = t
				}
				return e.mkSlice(b, 0, len(s.B), len(s.B))
			}
			cs, ok := s.Concrete()
			if !ok {
				unsup("[]rune(symbolic string)")
			}
			rs := []rune(cs)
			b := e.newBacking(ts.Elem(), len(rs))
			for i, r := range rs {
				e.cellAt(b, i).V = BV(32, uint64(r))
			}
			return e.mkSlice(b, 0, len(rs), len(rs))
		}
	}
	if _, ok := tu.(*types.Pointer); ok {
		return x // unsafe.Pointer -> *T: keep the pointer
	}
	if b, ok := tu.(*types.Basic); ok && b.Kind() == types.UnsafePointer {
		return x
	}
	unsup("convert %s -> %s (%T)", from, to, x)
	return nil
}

func (e *Exec) typeAssert(fr *Frame, in *ssa.TypeAssert) {
	iv := e.get(fr, in.X).(IfaceVal)
	var ok bool
	var res Value
	if _, isIface := in.AssertedType.Underlying().(*types.Interface); isIface {
		if iv.T != nil {
			ok = types.Implements(iv.T, in.AssertedType.Underlying().(*types.Interface))
			if !ok {
				// pointer receiver methods are in the method set of the named pointer only; Implements handles that
			}
		}
		if ok {
			res = iv
		} else {
			res = IfaceVal{}
		}
	} else {
		ok = iv.T != nil && sameType(iv.T, in.AssertedType)
		if ok {
			res = iv.V
		} else {
			res = zeroValue(in.AssertedType)
		}
	}
	if in.CommaOk {
		e.set(fr, in, TupleVal{res, Bool(ok)})
		return
	}
	if !ok {
		e.goPanic(fmt.Sprintf("interface conversion: interface is %v, not %s", iv.T, in.AssertedType))
	}
	e.set(fr, in, res)
}

// ---------------------------------------------------------------- slices, arrays, strings

func (e *Exec) boundsCheck(ok *Term, msg string) {
	if ok.IsTrue() {
		return
	}
	if !e.branch(ok) {
		e.goPanic(msg)
	}
}

func (e *Exec) indexAddr(fr *Frame, in *ssa.IndexAddr) {
	x := e.get(fr, in.X)
	idx := e.get(fr, in.Index).(*Term)
	idx = e.toInt64(idx, in.Index.Type())
	switch v := x.(type) {
	case Ptr: // *array
		if v.C == nil {
			e.goPanic("runtime error: invalid memory address or nil pointer dereference")
		}
		n := len(v.C.Sub)
		e.boundsCheck(CmpBV(OpULt, idx, konst(n)), "runtime error: index out of range")
		i := int(e.concretize(idx))
		e.set(fr, in, Ptr{v.C.Sub[i]})
	case SliceVal:
		v = normSlice(v)
		e.boundsCheck(CmpBV(OpULt, idx, v.Len), "runtime error: index out of range")
		pos := e.concretize(BinBV(OpAdd, v.Off, idx))
		e.set(fr, in, Ptr{e.cellAt(v.Back, int(pos))})
	default:
		unsup("IndexAddr on %T", x)
	}
}

func (e *Exec) toInt64(t *Term, ty types.Type) *Term {
	if t.W == 64 {
		return t
	}
	_, signed, _ := intW(ty)
	if signed {
		return SExt(t, 64)
	}
	return ZExt(t, 64)
}

func (e *Exec) index(fr *Frame, in *ssa.Index) {
	x := e.get(fr, in.X)
	idx := e.toInt64(e.get(fr, in.Index).(*Term), in.Index.Type())
	switch v := x.(type) {
	case *AggVal:
		e.boundsCheck(CmpBV(OpULt, idx, konst(len(v.F))), "runtime error: index out of range")
		e.set(fr, in, e.selectIndex(len(v.F), idx, func(i int) Value { return v.F[i] }))
	case StrVal:
		e.boundsCheck(CmpBV(OpULt, idx, konst(len(v.B))), "runtime error: index out of range")
		e.set(fr, in, e.selectIndex(len(v.B), idx, func(i int) Value { return v.B[i] }))
	default:
		unsup("Index on %T", x)
	}
}

// selectIndex returns elems[idx]; for a symbolic index over scalar elements it builds an ite chain,
// otherwise it concretises the index.
func (e *Exec) selectIndex(n int, idx *Term, at func(int) Value) Value {
	if idx.IsConst() {
		return at(int(idx.C))
	}
	if n <= 256 {
		allTerms := true
		for i := 0; i < n; i++ {
			if _, ok := at(i).(*Term); !ok {
				allTerms = false
				break
			}
		}
		if allTerms && n > 0 {
			r := at(n - 1).(*Term)
			for i := n - 2; i >= 0; i-- {
				r = Ite(Eq(idx, konst(i)), at(i).(*Term), r)
			}
			return r
		}
	}
	return at(int(e.concretize(idx)))
}

func (e *Exec) sliceOp(fr *Frame, in *ssa.Slice) {
	x := e.get(fr, in.X)
	var lo, hi, max *Term
	if in.Low != nil {
		lo = e.toInt64(e.get(fr, in.Low).(*Term), in.Low.Type())
	}
	if in.High != nil {
		hi = e.toInt64(e.get(fr, in.High).(*Term), in.High.Type())
	}
	if in.Max != nil {
		max = e.toInt64(e.get(fr, in.Max).(*Term), in.Max.Type())
	}
	switch v := x.(type) {
	case StrVal:
		n := len(v.B)
		l, h := 0, n
		if lo != nil {
			l = int(e.concretizeBounded(lo, n))
		}
		if hi != nil {
			h = int(e.concretizeBounded(hi, n))
		}
		if l < 0 || h > n || l > h {
			e.goPanic(fmt.Sprintf("runtime error: slice bounds out of range [%d:%d] with length %d", l, h, n))
		}
		e.set(fr, in, StrVal{v.B[l:h]})
	case SliceVal:
		v = normSlice(v)
		e.set(fr, in, e.reslice(v.Back, v.Off, v.Len, v.Cap, lo, hi, max))
	case Ptr: // *array
		if v.C == nil {
			e.goPanic("runtime error: invalid memory address or nil pointer dereference")
		}
		at := v.C.T.Underlying().(*types.Array)
		n := int(at.Len())
		b := &Backing{Elem: at.Elem(), N: n, Cells: v.C.Sub, epoch: v.C.epoch}
		for i, c := range v.C.Sub {
			if c.Back == nil {
				c.Back, c.Idx = b, i
			} else {
				b = c.Back
				break
			}
		}
		e.set(fr, in, e.reslice(b, konst(0), konst(n), konst(n), lo, hi, max))
	default:
		unsup("Slice on %T", x)
	}
}

// reslice implements s[lo:hi:max] with symbolic-capable bounds arithmetic.
func (e *Exec) reslice(b *Backing, off, ln, cp, lo, hi, max *Term) SliceVal {
	if lo == nil {
		lo = konst(0)
	}
	if hi == nil {
		hi = ln
	}
	newCap := cp
	if max != nil {
		e.boundsCheck(CmpBV(OpULe, max, cp), "runtime error: slice bounds out of range [::max] with capacity")
		e.boundsCheck(CmpBV(OpULe, hi, max), "runtime error: slice bounds out of range [:hi:max]")
		newCap = max
	} else {
		e.boundsCheck(CmpBV(OpULe, hi, cp), "runtime error: slice bounds out of range [:hi] with capacity")
	}
	e.boundsCheck(CmpBV(OpULe, lo, hi), "runtime error: slice bounds out of range [lo:hi]")
	if b == nil {
		return SliceVal{}
	}
	return SliceVal{Back: b, Off: BinBV(OpAdd, off, lo), Len: BinBV(OpSub, hi, lo), Cap: BinBV(OpSub, newCap, lo)}
}

func (e *Exec) makeSlice(fr *Frame, in *ssa.MakeSlice) {
	ln := e.toInt64(e.get(fr, in.Len).(*Term), in.Len.Type())
	cp := e.toInt64(e.get(fr, in.Cap).(*Term), in.Cap.Type())
	elem := in.Type().Underlying().(*types.Slice).Elem()
	if e.branch(CmpBV(OpSLt, ln, konst(0))) {
		e.goPanic("runtime error: makeslice: len out of range")
	}
	if e.branch(CmpBV(OpSLt, cp, ln)) {
		e.goPanic("runtime error: makeslice: cap out of range")
	}
	if cp.IsConst() {
		n := int(cp.C)
		if n > 1<<24 {
			unsup("makeslice of %d elements", n)
		}
		b := e.newBacking(elem, n)
		e.set(fr, in, SliceVal{Back: b, Off: konst(0), Len: ln, Cap: cp})
		return
	}
	// symbolic capacity: a wide backing array whose elements are materialised on demand
	e.backingSeq++
	b := &Backing{Elem: elem, Wide: true, Size: cp, Wmap: map[int]*Cell{}, epoch: e.epoch, id: e.backingSeq}
	if e.allocLimit > 0 {
		e.noteAlloc(cp)
	}
	e.set(fr, in, SliceVal{Back: b, Off: konst(0), Len: ln, Cap: cp})
}

func (e *Exec) sliceToArrayPtr(fr *Frame, in *ssa.SliceToArrayPointer) {
	v := normSlice(e.get(fr, in.X).(SliceVal))
	at := in.Type().(*types.Pointer).Elem().Underlying().(*types.Array)
	n := int(at.Len())
	e.boundsCheck(CmpBV(OpULe, konst(n), v.Len), "runtime error: cannot convert slice to array pointer: length too short")
	if v.Back == nil {
		e.set(fr, in, Ptr{})
		return
	}
	off := int(e.concretize(v.Off))
	c := &Cell{T: at, epoch: v.Back.epoch, Sub: make([]*Cell, n)}
	for i := 0; i < n; i++ {
		c.Sub[i] = e.cellAt(v.Back, off+i)
	}
	e.set(fr, in, Ptr{c})
}

// ---------------------------------------------------------------- maps, range

func (e *Exec) mapFind(m *MapObj, k Value) int {
	for i, mk := range m.Keys {
		eq := e.valEq(mk, k)
		if eq.IsFalse() {
			continue
		}
		if e.branch(eq) {
			return i
		}
	}
	return -1
}

func (e *Exec) mapTouch(m *MapObj) {
	if m.epoch != e.epoch && !e.mapUndone[m] {
		e.mapUndone[m] = true
		e.undo = append(e.undo, undoRec{m: m, mk: append([]Value(nil), m.Keys...), mv: append([]Value(nil), m.Vals...)})
	}
}

func (e *Exec) mapSet(m *MapObj, k, v Value) {
	i := e.mapFind(m, k)
	e.mapTouch(m)
	if i >= 0 {
		m.Vals[i] = v
		return
	}
	m.Keys = append(m.Keys, k)
	m.Vals = append(m.Vals, v)
}

func (e *Exec) mapDelete(m *MapObj, k Value) {
	i := e.mapFind(m, k)
	if i < 0 {
		return
	}
	e.mapTouch(m)
	m.Keys = append(append([]Value(nil), m.Keys[:i]...), m.Keys[i+1:]...)
	m.Vals = append(append([]Value(nil), m.Vals[:i]...), m.Vals[i+1:]...)
}

func (e *Exec) lookup(fr *Frame, in *ssa.Lookup) {
	x := e.get(fr, in.X)
	switch v := x.(type) {
	case StrVal:
		idx := e.toInt64(e.get(fr, in.Index).(*Term), in.Index.Type())
		e.boundsCheck(CmpBV(OpULt, idx, konst(len(v.B))), "runtime error: index out of range")
		e.set(fr, in, e.selectIndex(len(v.B), idx, func(i int) Value { return v.B[i] }))
	case MapVal:
		k := e.get(fr, in.Index)
		vt := in.X.Type().Underlying().(*types.Map).Elem()
		var res Value
		found := false
		if v.M != nil {
			if i := e.mapFind(v.M, k); i >= 0 {
				res, found = v.M.Vals[i], true
			}
		}
		if !found {
			res = zeroValue(vt)
		}
		if in.CommaOk {
			e.set(fr, in, TupleVal{res, Bool(found)})
		} else {
			e.set(fr, in, res)
		}
	default:
		unsup("Lookup on %T", x)
	}
}

func (e *Exec) rangeOp(fr *Frame, in *ssa.Range) {
	x := e.get(fr, in.X)
	switch v := x.(type) {
	case StrVal:
		e.set(fr, in, &RangeIter{s: v})
	case MapVal:
		it := &RangeIter{isMap: true}
		if v.M != nil {
			it.m = v.M
			it.keys = append([]Value(nil), v.M.Keys...)
			it.vals = append([]Value(nil), v.M.Vals...)
			if e.X != nil && e.X.reverseMaps {
				for i, j := 0, len(it.keys)-1; i < j; i, j = i+1, j-1 {
					it.keys[i], it.keys[j] = it.keys[j], it.keys[i]
					it.vals[i], it.vals[j] = it.vals[j], it.vals[i]
				}
			}
		}
		e.set(fr, in, it)
	default:
		unsup("Range on %T", x)
	}
}

func (e *Exec) nextOp(fr *Frame, in *ssa.Next) {
	it := e.get(fr, in.Iter).(*RangeIter)
	tt := in.Type().(*types.Tuple)
	if it.isMap {
		for it.pos < len(it.keys) {
			k, v := it.keys[it.pos], it.vals[it.pos]
			it.pos++
			// skip entries deleted during iteration (pointer-identity of the key slot is enough here)
			if it.m != nil {
				alive := false
				for j, mk := range it.m.Keys {
					if e.valEq(mk, k).IsTrue() {
						alive = true
						v = it.m.Vals[j]
						break
					}
				}
				if !alive {
					continue
				}
			}
			e.set(fr, in, TupleVal{tTrue, k, v})
			return
		}
		e.set(fr, in, TupleVal{tFalse, zeroOrNil(tt.At(1).Type()), zeroOrNil(tt.At(2).Type())})
		return
	}
	// string: decode UTF-8; symbolic bytes must be decided to be ASCII or the path forks per byte class
	if it.pos >= len(it.s.B) {
		e.set(fr, in, TupleVal{tFalse, konst(0), BV(32, 0)})
		return
	}
	b0 := it.s.B[it.pos]
	if e.branch(CmpBV(OpULt, b0, BV(8, 0x80))) {
		e.set(fr, in, TupleVal{tTrue, konst(it.pos), ZExt(b0, 32)})
		it.pos++
		return
	}
	// non-ASCII: need concrete bytes
	start := it.pos
	var raw []byte
	for i := it.pos; i < len(it.s.B) && i < it.pos+4; i++ {
		raw = append(raw, byte(e.concretize(it.s.B[i])))
	}
	r, size := decodeRune(raw)
	it.pos += size
	e.set(fr, in, TupleVal{tTrue, konst(start), BV(32, uint64(r))})
}

// skipInitFailure abandons the package-initialiser statement that could not be interpreted
// (unsafe tricks, assembly, reflection): package initialisation is best effort; anything a harness
// later needs from a half-initialised package shows up as an unsupported path, never as a pass.
func (e *Exec) skipInitFailure(g *Goroutine, r interface{}) {
	i := len(g.frames) - 1
	for i > 0 && !e.isPkgInit(g.frames[i].fn) {
		i--
	}
	if verboseInit {
		fmt.Printf("init: skipped statement in %s: %v\n", g.frames[i].fn, r)
	}
	g.frames = g.frames[:i+1]
	fr := g.frames[i]
	fr.defers = nil
	g.panic = nil
	if fr.ip < len(fr.block.Instrs) {
		if v, ok := fr.block.Instrs[fr.ip].(ssa.Value); ok {
			func() {
				defer func() { recover() }()
				e.set(fr, v, zeroValue(v.Type()))
			}()
		}
		if _, isCtl := fr.block.Instrs[fr.ip].(*ssa.Return); isCtl {
			e.popFrame(g, nil)
			return
		}
		fr.ip++
	}
}

var verboseInit = false

func normSlice(v SliceVal) SliceVal {
	if v.Back == nil {
		z := konst(0)
		return SliceVal{Off: z, Len: z, Cap: z}
	}
	return v
}

func zeroOrNil(t types.Type) Value {
	if b, ok := t.(*types.Basic); ok && b.Kind() == types.Invalid {
		return nil
	}
	return zeroValue(t)
}
