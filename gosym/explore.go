package main

import (
	"fmt"
	"go/token"
	"os"
	"sort"
	"strings"
	"sync"
	"time"

	"golang.org/x/tools/go/ssa"
)

type Config struct {
	Workers     int
	MaxPaths    int
	MaxSteps    int
	CrossCheck  string
	ReverseMaps bool
	Params      map[string]int64
	Samples     int
	TimeLimit   time.Duration
	Solver      string
	Seed        int64
}

type SamplePath struct {
	Inputs   map[string]uint64 `json:"inputs"`
	Observes map[string]string `json:"observes"`
	Covers   []string          `json:"covers"`
	Decisions int              `json:"decisions"`
	Steps    int               `json:"steps"`
}

type CexOut struct {
	Kind     string            `json:"kind"`
	Msg      string            `json:"msg"`
	Inputs   map[string]uint64 `json:"inputs"`
	Observes map[string]string `json:"observes"`
}

type Result struct {
	Harness     string            `json:"harness"`
	Pkg         string            `json:"pkg"`
	Params      map[string]int64  `json:"params"`
	Paths       map[string]int    `json:"paths"`
	Forks       int               `json:"forks"`
	Asserts     map[string]int    `json:"asserts_discharged"`
	AssertCount int               `json:"assert_queries"`
	Queries     int               `json:"solver_queries"`
	SolverSec   float64           `json:"solver_s"`
	WallSec     float64           `json:"wall_s"`
	Steps       int64             `json:"instructions"`
	Unknowns    []string          `json:"unknowns"`
	Unsupported []string          `json:"unsupported"`
	Budget      []string          `json:"budget"`
	Covers      []string          `json:"covers"`
	Cex         []CexOut          `json:"counterexamples"`
	Samples     []SamplePath      `json:"samples"`
	Funcs       map[string]int    `json:"functions"`
	Stubs       map[string]int    `json:"stubs"`
	CrossChecks map[string]int    `json:"cross_checked"`
	ForkSites   map[string]int    `json:"fork_sites"`
	Truncated   bool              `json:"truncated"`
}

type Explorer struct {
	P     *Program
	entry *ssa.Function
	cfg   Config

	mu      sync.Mutex
	cond    *sync.Cond
	work    [][]Decision
	active  int
	stopped bool

	res         Result
	seenCex     map[string]bool
	reverseMaps bool
	crossCheck  string
	allocLimit  int
	deadline    time.Time
	doneSeen    int
	rng         uint64
	crossLeft   int
}

func (x *Explorer) push(p []Decision) {
	x.mu.Lock()
	x.work = append(x.work, p)
	x.mu.Unlock()
	x.cond.Signal()
}

func (x *Explorer) pop() ([]Decision, bool) {
	x.mu.Lock()
	defer x.mu.Unlock()
	for {
		if x.stopped {
			return nil, false
		}
		if n := len(x.work); n > 0 {
			p := x.work[n-1]
			x.work = x.work[:n-1]
			x.active++
			return p, true
		}
		if x.active == 0 {
			x.cond.Broadcast()
			return nil, false
		}
		x.cond.Wait()
	}
}

func (x *Explorer) finish() {
	x.mu.Lock()
	x.active--
	if x.active == 0 && len(x.work) == 0 {
		x.cond.Broadcast()
	}
	x.mu.Unlock()
}

// sampleSlot implements seeded reservoir sampling over completed paths: it reports whether the
// current path should be recorded as a witness sample and in which slot.
func (x *Explorer) sampleSlot(slot *int) bool {
	x.mu.Lock()
	defer x.mu.Unlock()
	i := x.doneSeen
	x.doneSeen++
	k := x.cfg.Samples
	if k <= 0 {
		return false
	}
	if i < k {
		*slot = i
		return true
	}
	x.rng = x.rng*6364136223846793005 + 1442695040888963407
	j := int((x.rng >> 33) % uint64(i+1))
	if j < k {
		*slot = j
		return true
	}
	return false
}

func (x *Explorer) noteUnknown(what string) {
	x.mu.Lock()
	if len(x.res.Unknowns) < 50 {
		x.res.Unknowns = append(x.res.Unknowns, what)
	}
	x.mu.Unlock()
}

func (x *Explorer) discharged(msg string) {
	x.mu.Lock()
	x.res.Asserts[msg]++
	x.mu.Unlock()
}

// takeCrossBudget limits how many unsat assertion verdicts per obligation are re-discharged on the
// other solvers (each re-discharge replays the whole path script on two fresh processes).
func (x *Explorer) takeCrossBudget() bool {
	x.mu.Lock()
	defer x.mu.Unlock()
	if x.crossLeft <= 0 {
		return false
	}
	x.crossLeft--
	return true
}

func (x *Explorer) crossChecked(kind string) {
	x.mu.Lock()
	x.res.CrossChecks[kind]++
	x.mu.Unlock()
}

func Explore(P *Program, entry *ssa.Function, cfg Config) *Result {
	x := &Explorer{P: P, entry: entry, cfg: cfg, seenCex: map[string]bool{}, reverseMaps: cfg.ReverseMaps, crossCheck: cfg.CrossCheck}
	x.cond = sync.NewCond(&x.mu)
	x.rng = uint64(cfg.Seed)*2654435761 + 12345
	x.crossLeft = 400
	x.res = Result{Harness: entry.Name(), Pkg: entry.Pkg.Pkg.Path(), Params: cfg.Params, Paths: map[string]int{}, Asserts: map[string]int{},
		Funcs: map[string]int{}, Stubs: map[string]int{}, CrossChecks: map[string]int{}, ForkSites: map[string]int{}}
	if cfg.TimeLimit > 0 {
		x.deadline = time.Now().Add(cfg.TimeLimit)
	}
	start := time.Now()
	x.work = append(x.work, nil)
	var wg sync.WaitGroup
	covers := map[string]bool{}
	for w := 0; w < cfg.Workers; w++ {
		wg.Add(1)
		go func() {
			defer wg.Done()
			kind := cfg.Solver
			if kind == "" {
				kind = "z3-new"
			}
			s, err := NewSolver(kind)
			if err != nil {
				x.noteUnknown("cannot start solver: " + err.Error())
				return
			}
			defer s.Close()
			e := NewExec(P, s, x)
			for {
				p, ok := x.pop()
				if !ok {
					break
				}
				end := e.RunPath(entry, p)
				x.record(e, end, covers)
				x.finish()
			}
			x.mu.Lock()
			x.res.Queries += s.Queries
			x.res.SolverSec += s.SolveTime.Seconds()
			for k, v := range e.callCount {
				x.res.Funcs[k] += v
			}
			for k, v := range e.stubHits {
				x.res.Stubs[k] += v
			}
			for k, v := range e.forkSites {
				x.res.ForkSites[k] += v
			}
			x.mu.Unlock()
		}()
	}
	wg.Wait()
	x.res.WallSec = time.Since(start).Seconds()
	for c := range covers {
		x.res.Covers = append(x.res.Covers, c)
	}
	sort.Strings(x.res.Covers)
	return &x.res
}

func (x *Explorer) record(e *Exec, end pathEnd, covers map[string]bool) {
	x.mu.Lock()
	defer x.mu.Unlock()
	x.res.Paths[end.kind]++
	x.res.Forks += e.forks
	x.res.Steps += int64(e.steps)
	x.res.AssertCount += e.assertsChecked
	switch end.kind {
	case "unsupported":
		if len(x.res.Unsupported) < 20 && !contains(x.res.Unsupported, end.msg) {
			x.res.Unsupported = append(x.res.Unsupported, end.msg)
		}
	case "budget":
		if len(x.res.Budget) < 20 && !contains(x.res.Budget, end.msg) {
			x.res.Budget = append(x.res.Budget, end.msg)
		}
	}
	if end.kind == "done" || len(e.viol) > 0 {
		// labels on a path that ran to completion, or on which a counterexample was produced, are reachable
		for c := range e.covers {
			covers[c] = true
		}
	}
	for _, v := range e.viol {
		key := v.Kind + "|" + v.Msg
		if x.seenCex[key] && len(x.res.Cex) >= 1 {
			// keep at most 3 counterexamples per distinct message
			n := 0
			for _, c := range x.res.Cex {
				if c.Kind+"|"+c.Msg == key {
					n++
				}
			}
			if n >= 3 {
				continue
			}
		}
		x.seenCex[key] = true
		x.res.Cex = append(x.res.Cex, CexOut{Kind: v.Kind, Msg: v.Msg, Inputs: e.inputsOf(v.Model), Observes: v.Observes})
	}
	if end.kind == "done" && e.sample != nil {
		if e.sampleSlot >= len(x.res.Samples) {
			x.res.Samples = append(x.res.Samples, *e.sample)
		} else if e.sampleSlot >= 0 {
			x.res.Samples[e.sampleSlot] = *e.sample
		}
	}
	total := 0
	for _, n := range x.res.Paths {
		total += n
	}
	if (x.cfg.MaxPaths > 0 && total >= x.cfg.MaxPaths) || (!x.deadline.IsZero() && time.Now().After(x.deadline)) {
		if len(x.work) > 0 || x.active > 1 {
			x.res.Truncated = true
		}
		x.stopped = true
		x.cond.Broadcast()
	}
}

func contains(l []string, s string) bool {
	for _, x := range l {
		if x == s {
			return true
		}
	}
	return false
}

func NewExec(P *Program, s *Solver, x *Explorer) *Exec {
	e := &Exec{P: P, S: s, X: x, forkSites: map[string]int{}, globals: map[*ssa.Global]*Cell{}, maxSteps: x.cfg.MaxSteps, callCount: map[string]int{}, stubHits: map[string]int{}}
	if e.maxSteps == 0 {
		e.maxSteps = 2000000
	}
	return e
}

func (e *Exec) inputsOf(m Model) map[string]uint64 {
	out := map[string]uint64{}
	for _, v := range e.vars {
		out[v.Name] = m[v.Name] & maskB(v.W)
	}
	return out
}

func (e *Exec) renderObserves(m Model) map[string]string {
	out := map[string]string{}
	cnt := map[string]int{}
	cache := map[*Term]uint64{}
	for _, o := range e.observes {
		k := o.name
		if n := cnt[o.name]; n > 0 {
			k = fmt.Sprintf("%s#%d", o.name, n)
		}
		cnt[o.name]++
		out[k] = e.render(o.val, m, cache)
	}
	return out
}

// render prints a value under a model in the same format the native harness API uses.
func (e *Exec) render(v Value, m Model, cache map[*Term]uint64) string {
	switch x := v.(type) {
	case *Term:
		val := x.Eval(m, cache)
		if x.W == 0 {
			if val == 1 {
				return "true"
			}
			return "false"
		}
		return fmt.Sprintf("%d", val)
	case StrVal:
		var sb strings.Builder
		for _, b := range x.B {
			fmt.Fprintf(&sb, "%02x", b.Eval(m, cache))
		}
		return "s:" + sb.String()
	case SliceVal:
		if x.Back == nil {
			return "[]"
		}
		n, off := int(x.Len.Eval(m, cache)), int(x.Off.Eval(m, cache))
		parts := make([]string, n)
		for i := 0; i < n; i++ {
			parts[i] = e.render(e.loadElem(x.Back, off+i), m, cache)
		}
		return "[" + strings.Join(parts, ",") + "]"
	case IfaceVal:
		if x.T == nil {
			return "nil"
		}
		return e.render(x.V, m, cache)
	case *AggVal:
		parts := make([]string, len(x.F))
		for i, f := range x.F {
			parts[i] = e.render(f, m, cache)
		}
		return "{" + strings.Join(parts, ",") + "}"
	case Ptr:
		if x.C == nil {
			return "nil"
		}
		return "ptr"
	}
	return fmt.Sprintf("%T", v)
}

// RunPath executes the harness once, following prefix and then exploring one new path to its end.
func (e *Exec) RunPath(entry *ssa.Function, prefix []Decision) (end pathEnd) {
	e.epoch++
	e.S.ResetPath()
	e.gs = e.gs[:0]
	e.pc = e.pc[:0]
	e.prefix, e.pos = prefix, 0
	e.dec = e.dec[:0]
	e.model, e.modelOK = Model{}, true // empty path condition: the all-zero model
	e.steps, e.forks, e.assertsChecked = 0, 0, 0
	// SCHED=d in the harness parameters turns schedule exploration on with delay bound d
	e.schedBound = int(e.X.cfg.Params["SCHED"])
	e.schedRev = e.X.cfg.Params["SCHEDREV"] != 0
	e.raceReset()
	e.schedBudget, e.forcePick, e.schedPoints = e.schedBound, nil, 0
	e.nameCnt = map[string]int{}
	e.vars = e.vars[:0]
	e.covers = map[string]bool{}
	e.observes = e.observes[:0]
	e.viol = nil
	e.mutexes = map[*Cell]*mutexState{}
	e.wgs = map[*Cell]*int64{}
	e.mapUndone = map[*MapObj]bool{}
	e.undo = e.undo[:0]
	e.sample = nil
	e.allocLimit = 0

	defer func() {
		if r := recover(); r != nil {
			switch x := r.(type) {
			case pathEnd:
				end = x
			case unsupported:
				end = pathEnd{"unsupported", x.msg}
			default:
				panic(r)
			}
		}
		if end.kind == "panic" || end.kind == "deadlock" {
			// the path condition is satisfiable (every extension was checked), so this is a candidate violation
			if e.safeModel() {
				e.viol = append(e.viol, &Violation{Msg: end.msg, Model: e.model, Kind: end.kind, Observes: e.renderObserves(e.model)})
			}
		}
		if slot := -1; end.kind == "done" && e.X.sampleSlot(&slot) {
			e.sampleSlot = slot
			if e.safeModel() {
				cs := make([]string, 0, len(e.covers))
				for c := range e.covers {
					cs = append(cs, c)
				}
				sort.Strings(cs)
				e.sample = &SamplePath{Inputs: e.inputsOf(e.model), Observes: e.renderObserves(e.model), Covers: cs, Decisions: len(e.dec), Steps: e.steps}
			}
		}
		for _, v := range e.viol {
			if v.Observes == nil {
				v.Observes = e.renderObserves(v.Model)
			}
		}
		// roll the pre-path world back
		for i := len(e.undo) - 1; i >= 0; i-- {
			u := e.undo[i]
			if u.c != nil {
				u.c.V = u.old
			} else {
				u.m.Keys, u.m.Vals = u.mk, u.mv
			}
		}
	}()

	if !e.initDone {
		e.runInit(entry)
		e.initDone = true
		e.mutexes = map[*Cell]*mutexState{}
		e.wgs = map[*Cell]*int64{}
		e.epoch++
		e.undo = e.undo[:0]
	}
	g := &Goroutine{id: 0}
	e.gs = append(e.gs, g)
	e.pushFrame(g, entry, nil, nil, retGo, nil)
	e.schedule()
	if e.pos < len(e.prefix) {
		return pathEnd{"unsupported", "replay diverged: prefix not consumed (non-deterministic harness?)"}
	}
	return pathEnd{"done", ""}
}

func (e *Exec) safeModel() (ok bool) {
	defer func() {
		if r := recover(); r != nil {
			ok = false
		}
	}()
	return e.ensureModel()
}

var debugStacks = os.Getenv("GOSYM_STACKS") != ""

// runnable lists the goroutines that can run, in default priority order (ascending id; goroutines
// that yielded come last).
func (e *Exec) runnable(except *Goroutine) []*Goroutine {
	var out []*Goroutine
	for pass := 0; pass < 2; pass++ {
		n := len(out)
		for _, g := range e.gs {
			if g == except || g.done || (pass == 0) == g.lowPrio {
				continue
			}
			if g.blocked != nil && !g.blocked() {
				continue
			}
			out = append(out, g)
		}
		if e.schedRev {
			// second base schedule: the youngest runnable goroutine first
			for i, j := n, len(out)-1; i < j; i, j = i+1, j-1 {
				out[i], out[j] = out[j], out[i]
			}
		}
	}
	return out
}

// isVisibleOp: operations before which another goroutine may be scheduled when schedule
// exploration is on (communication, locking, goroutine creation).
func isVisibleOp(instr ssa.Instruction) bool {
	switch in := instr.(type) {
	case *ssa.Send, *ssa.Select, *ssa.Go:
		return true
	case *ssa.UnOp:
		return in.Op == token.ARROW
	case *ssa.Call:
		if f := in.Call.StaticCallee(); f != nil {
			switch f.String() {
			case "(*sync.Mutex).Lock", "(*sync.Mutex).Unlock", "(*sync.RWMutex).Lock", "(*sync.RWMutex).Unlock",
				"(*sync.RWMutex).RLock", "(*sync.RWMutex).RUnlock", "(*sync.WaitGroup).Done", "(*sync.WaitGroup).Wait",
				"(*sync.WaitGroup).Add", "close":
				return true
			}
		}
		if b, ok := in.Call.Value.(*ssa.Builtin); ok && b.Name() == "close" {
			return true
		}
	}
	return false
}

// offerPreemption makes "who runs next" a solver-chosen value before a visible operation of g:
// 0 lets g continue, i > 0 delays g and runs the i-th other runnable goroutine; every delay is paid
// from the path's delay budget. Reports whether g was preempted.
func (e *Exec) offerPreemption(g *Goroutine, instr ssa.Instruction) bool {
	others := e.runnable(g)
	if len(others) == 0 {
		return false
	}
	k := len(others)
	if k > e.schedBudget {
		k = e.schedBudget
	}
	e.schedPoints++
	t := e.freshVar("sched", 64)
	e.assume(CmpBV(OpULe, t, konst(k)))
	i := int(e.concretize(t))
	if i == 0 {
		return false
	}
	e.schedBudget -= i
	e.forcePick = others[i-1]
	g.noPreemptAt = instr
	g.blocked = func() bool { return true } // still runnable: re-executes the same instruction when resumed
	g.why = "preempted"
	return true
}

func (e *Exec) schedule() {
	main := e.gs[0]
	for !main.done {
		var pick *Goroutine
		if e.forcePick != nil {
			pick, e.forcePick = e.forcePick, nil
		} else {
			list := e.runnable(nil)
			if len(list) > 0 {
				pick = list[0]
			}
			if e.schedBudget > 0 && len(list) > 1 && !e.inInit {
				// the running goroutine blocked or ended: which of the runnable ones continues is
				// a solver-chosen value too (index i costs i delays)
				k := len(list) - 1
				if k > e.schedBudget {
					k = e.schedBudget
				}
				e.schedPoints++
				t := e.freshVar("sched", 64)
				e.assume(CmpBV(OpULe, t, konst(k)))
				i := int(e.concretize(t))
				e.schedBudget -= i
				pick = list[i]
			}
		}
		if pick == nil {
			var why []string
			for _, g := range e.gs {
				if !g.done {
					why = append(why, fmt.Sprintf("g%d: %s", g.id, g.why))
					if debugStacks {
						for i := len(g.frames) - 1; i >= 0; i-- {
							fmt.Printf("  g%d #%d %s\n", g.id, i, g.frames[i].fn)
						}
					}
				}
			}
			e.endPath("deadlock", "all goroutines blocked: "+strings.Join(why, "; "))
		}
		pick.blocked = nil
		pick.lowPrio = false
		e.runGoroutine(pick)
	}
}

// runInit interprets the package initialisers of the white-listed packages, concretely, once per worker.
func (e *Exec) runInit(entry *ssa.Function) {
	e.inInit = true
	defer func() { e.inInit = false }()
	save := e.epoch
	e.epoch = 0
	defer func() { e.epoch = save }()
	old := e.maxSteps
	e.maxSteps = 50000000
	inits := []*ssa.Function{entry.Pkg.Func("init")}
	for path, p := range e.P.pkgs {
		if strings.HasPrefix(path, modPath+"/zz_verif/") {
			inits = append(inits, p.Func("init"))
		}
	}
	for _, init := range inits {
		if init == nil {
			continue
		}
		g := &Goroutine{id: 0}
		e.gs = append(e.gs[:0], g)
		fr := e.pushFrame(g, init, nil, nil, retGo, nil)
		fr.initMode = true
		e.schedule()
	}
	e.maxSteps = old
	e.steps = 0
	e.callCount = map[string]int{}
	e.stubHits = map[string]int{}
	e.gs = e.gs[:0]
}
