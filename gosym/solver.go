package main

import (
	"bufio"
	"fmt"
	"io"
	"os"
	"os/exec"
	"strconv"
	"strings"
	"time"
)

type SatResult int

const (
	Unsat SatResult = iota
	Sat
	Unknown
)

func (r SatResult) String() string { return [...]string{"unsat", "sat", "unknown"}[r] }

// Solver wraps one persistent SMT process. All definitions and path assertions live in one
// push scope which is popped at the end of each explored path.
type Solver struct {
	kind   string
	cmd    *exec.Cmd
	in     io.WriteCloser
	out    *bufio.Reader
	names  map[*Term]string
	vars   map[string]int
	order  []string // declared variables in order
	n      int
	script []string // everything sent in the current path scope (for cross checks)
	nonlin bool     // current path scope contains a nonlinear kernel

	Queries   int
	SolveTime time.Duration
	Unknowns  int
	logf      io.Writer
}

func solverArgs(kind string) (string, []string) {
	switch kind {
	case "z3":
		return "z3", []string{"-in", "-t:60000"}
	case "z3-new":
		return "z3-new", []string{"-in", "-t:60000"}
	case "cvc5":
		return "cvc5", []string{"--incremental", "--lang=smt2", "--tlimit-per=60000", "--produce-models"}
	case "cvc5-int":
		return "cvc5", []string{"--incremental", "--lang=smt2", "--tlimit-per=60000", "--produce-models", "--solve-bv-as-int=sum"}
	}
	panic("unknown solver " + kind)
}

func NewSolver(kind string) (*Solver, error) {
	bin, args := solverArgs(kind)
	cmd := exec.Command(bin, args...)
	in, err := cmd.StdinPipe()
	if err != nil {
		return nil, err
	}
	outp, err := cmd.StdoutPipe()
	if err != nil {
		return nil, err
	}
	cmd.Stderr = os.Stderr
	if err := cmd.Start(); err != nil {
		return nil, err
	}
	s := &Solver{kind: kind, cmd: cmd, in: in, out: bufio.NewReaderSize(outp, 1<<16)}
	s.send("(set-option :produce-models true)")
	if strings.HasPrefix(kind, "cvc5") {
		s.send("(set-logic ALL)")
	}
	s.send("(push 1)")
	s.resetMaps()
	return s, nil
}

func (s *Solver) resetMaps() {
	s.names = make(map[*Term]string)
	s.vars = make(map[string]int)
	s.order = s.order[:0]
	s.script = s.script[:0]
	s.nonlin = false
	s.n = 0
}

func (s *Solver) Close() {
	if s.cmd != nil {
		s.in.Close()
		s.cmd.Process.Kill()
		s.cmd.Wait()
		s.cmd = nil
	}
}

func (s *Solver) send(line string) {
	if s.logf != nil {
		fmt.Fprintln(s.logf, line)
	}
	io.WriteString(s.in, line)
	io.WriteString(s.in, "\n")
}

func (s *Solver) sendScoped(line string) {
	s.script = append(s.script, line)
	s.send(line)
}

// ResetPath drops every definition and assertion of the current path.
func (s *Solver) ResetPath() {
	s.send("(pop 1)")
	s.send("(push 1)")
	s.resetMaps()
}

func (s *Solver) ref(t *Term) string {
	switch t.Op {
	case OpConst:
		return constStr(t)
	case OpVar:
		if _, ok := s.vars[t.Name]; !ok {
			s.vars[t.Name] = t.W
			s.order = append(s.order, t.Name)
			s.sendScoped(fmt.Sprintf("(declare-const %s %s)", smtName(t.Name), sortStr(t.W)))
		}
		return smtName(t.Name)
	}
	if n, ok := s.names[t]; ok {
		return n
	}
	args := make([]string, len(t.Args))
	for i, a := range t.Args {
		args[i] = s.ref(a)
	}
	var body string
	switch t.Op {
	case OpZExt:
		body = fmt.Sprintf("((_ zero_extend %d) %s)", t.W-t.Args[0].W, args[0])
	case OpSExt:
		body = fmt.Sprintf("((_ sign_extend %d) %s)", t.W-t.Args[0].W, args[0])
	case OpExtract:
		body = fmt.Sprintf("((_ extract %d %d) %s)", t.Hi, t.Lo, args[0])
	case OpMul, OpUDiv, OpURem, OpSDiv, OpSRem:
		if hasNonlinear(t, map[*Term]bool{}) {
			s.nonlin = true
		}
		body = "(" + opNames[t.Op] + " " + strings.Join(args, " ") + ")"
	default:
		body = "(" + opNames[t.Op] + " " + strings.Join(args, " ") + ")"
	}
	s.n++
	name := "t" + strconv.Itoa(s.n)
	s.sendScoped(fmt.Sprintf("(define-fun %s () %s %s)", name, sortStr(t.W), body))
	s.names[t] = name
	return name
}

func smtName(n string) string { return "|" + n + "|" }

// Assert adds t to the path condition (no check).
func (s *Solver) Assert(t *Term) {
	if t.IsTrue() {
		return
	}
	r := s.ref(t)
	s.sendScoped("(assert " + r + ")")
}

func (s *Solver) readLine() (string, error) {
	l, err := s.out.ReadString('\n')
	return strings.TrimSpace(l), err
}

// Check decides pathcondition ∧ extra. With wantModel and a sat answer the model of all declared
// variables is returned.
func (s *Solver) Check(extra *Term, wantModel bool) (SatResult, Model) {
	if extra != nil && extra.IsFalse() {
		return Unsat, nil
	}
	if s.nonlin && s.kind == "z3" {
		return s.checkExternal("cvc5-int", extra, wantModel)
	}
	var r string
	if extra != nil {
		r = s.ref(extra) // definitions stay in the path scope
	}
	if s.nonlin && s.kind == "z3" {
		return s.checkExternal("cvc5-int", extra, wantModel)
	}
	start := time.Now()
	s.send("(push 1)")
	if extra != nil {
		s.send("(assert " + r + ")")
	}
	s.send("(check-sat)")
	res := Unknown
	for {
		l, err := s.readLine()
		if err != nil {
			fmt.Fprintf(os.Stderr, "solver %s died: %v\n", s.kind, err)
			s.Unknowns++
			return Unknown, nil
		}
		if l == "" {
			continue
		}
		switch {
		case l == "sat":
			res = Sat
		case l == "unsat":
			res = Unsat
		case l == "unknown" || strings.HasPrefix(l, "timeout"):
			res = Unknown
		case strings.HasPrefix(l, "(error"):
			fmt.Fprintf(os.Stderr, "solver %s: %s\n", s.kind, l)
			res = Unknown
			// an error line is not followed by an answer for that command in z3; keep reading
			continue
		default:
			fmt.Fprintf(os.Stderr, "solver %s: unexpected %q\n", s.kind, l)
			continue
		}
		break
	}
	var m Model
	if res == Sat && wantModel {
		m = s.getModel()
	}
	s.send("(pop 1)")
	s.Queries++
	s.SolveTime += time.Since(start)
	if res == Unknown {
		s.Unknowns++
	}
	return res, m
}

func (s *Solver) getModel() Model {
	m := Model{}
	if len(s.order) == 0 {
		return m
	}
	var sb strings.Builder
	sb.WriteString("(get-value (")
	for _, n := range s.order {
		sb.WriteString(smtName(n))
		sb.WriteString(" ")
	}
	sb.WriteString("))")
	s.send(sb.String())
	// read a balanced s-expression
	var text strings.Builder
	depth := 0
	started := false
	inBar := false
	for !started || depth > 0 {
		b, err := s.out.ReadByte()
		if err != nil {
			break
		}
		text.WriteByte(b)
		if b == '|' {
			inBar = !inBar
		}
		if inBar {
			continue
		}
		if b == '(' {
			depth++
			started = true
		} else if b == ')' {
			depth--
		}
	}
	parseModel(text.String(), m)
	return m
}

// parseModel reads "((|a| #x0f) (|b| true) ...)".
func parseModel(txt string, m Model) {
	i := 0
	for i < len(txt) {
		j := strings.IndexByte(txt[i:], '|')
		if j < 0 {
			break
		}
		j += i
		k := strings.IndexByte(txt[j+1:], '|')
		if k < 0 {
			break
		}
		k += j + 1
		name := txt[j+1 : k]
		rest := strings.TrimLeft(txt[k+1:], " \n\t")
		end := strings.IndexAny(rest, ") \n\t")
		tok := rest
		if end >= 0 {
			tok = rest[:end]
		}
		var v uint64
		switch {
		case tok == "true":
			v = 1
		case tok == "false":
			v = 0
		case strings.HasPrefix(tok, "#x"):
			v, _ = strconv.ParseUint(tok[2:], 16, 64)
		case strings.HasPrefix(tok, "#b"):
			v, _ = strconv.ParseUint(tok[2:], 2, 64)
		case strings.HasPrefix(rest, "(_ bv"):
			f := strings.Fields(rest[5:])
			v, _ = strconv.ParseUint(f[0], 10, 64)
		}
		m[name] = v
		i = k + 1 + (len(txt[k+1:]) - len(rest)) + len(tok)
	}
}

// checkExternal replays the path script on a fresh one-shot solver of another kind.
func (s *Solver) checkExternal(kind string, extra *Term, wantModel bool) (SatResult, Model) {
	var r string
	if extra != nil {
		r = s.ref(extra)
	}
	start := time.Now()
	o, err := NewSolver(kind)
	if err != nil {
		s.Unknowns++
		return Unknown, nil
	}
	defer o.Close()
	for _, l := range s.script {
		o.send(l)
	}
	o.order = append(o.order[:0], s.order...)
	if extra != nil {
		o.send("(assert " + r + ")")
	}
	o.send("(check-sat)")
	res := Unknown
	for {
		l, err := o.readLine()
		if err != nil {
			break
		}
		if l == "" {
			continue
		}
		if l == "sat" {
			res = Sat
		} else if l == "unsat" {
			res = Unsat
		} else if strings.HasPrefix(l, "(error") {
			fmt.Fprintf(os.Stderr, "solver %s: %s\n", kind, l)
			continue
		}
		break
	}
	var m Model
	if res == Sat && wantModel {
		m = o.getModel()
	}
	s.Queries++
	s.SolveTime += time.Since(start)
	if res == Unknown {
		s.Unknowns++
	}
	return res, m
}

// CrossCheck re-discharges pathcondition ∧ extra on another solver kind and returns its verdict.
func (s *Solver) CrossCheck(kind string, extra *Term) SatResult {
	r, _ := s.checkExternal(kind, extra, false)
	return r
}
