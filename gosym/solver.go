package main

import (
	"bufio"
	"fmt"
	"io"
	"os"
	"os/exec"
	"strconv"
	"strings"
	"time"
)

var dumpSeq int

type SatResult int

const (
	Unsat SatResult = iota
	Sat
	Unknown
)

func (r SatResult) String() string { return [...]string{"unsat", "sat", "unknown"}[r] }

// Solver wraps one persistent SMT process. All definitions and path assertions live in one
// push scope which is popped at the end of each explored path.
type Solver struct {
	kind   string
	cmd    *exec.Cmd
	in     io.WriteCloser
	out    *bufio.Reader
	names  map[*Term]string
	defs   map[string]string // definition body -> name (structural sharing at the SMT level)
	asserted map[string]bool // names (or literals) asserted in the current path scope
	vars   map[string]int
	order  []string // declared variables in order
	n      int
	script []string // everything sent in the current path scope (for cross checks)
	nonlin bool     // current path scope contains a nonlinear kernel

	Queries   int
	SolveTime time.Duration
	Unknowns  int
	logf      io.Writer
}

func solverArgs(kind string) (string, []string) {
	switch kind {
	case "z3":
		return "z3", []string{"-in", "-t:30000"}
	case "z3-new":
		return "z3-new", []string{"-in", "-t:60000"}
	case "cvc5":
		return "cvc5", []string{"--incremental", "--lang=smt2", "--tlimit-per=60000", "--produce-models"}
	case "cvc5-int":
		return "cvc5", []string{"--incremental", "--lang=smt2", "--tlimit-per=60000", "--produce-models", "--solve-bv-as-int=sum"}
	}
	panic("unknown solver " + kind)
}

func NewSolver(kind string) (*Solver, error) {
	bin, args := solverArgs(kind)
	cmd := exec.Command(bin, args...)
	in, err := cmd.StdinPipe()
	if err != nil {
		return nil, err
	}
	outp, err := cmd.StdoutPipe()
	if err != nil {
		return nil, err
	}
	cmd.Stderr = os.Stderr
	if err := cmd.Start(); err != nil {
		return nil, err
	}
	s := &Solver{kind: kind, cmd: cmd, in: in, out: bufio.NewReaderSize(outp, 1<<16)}
	if lf := os.Getenv("GOSYM_LOG"); lf != "" {
		s.logf, _ = os.Create(fmt.Sprintf("%s.%d", lf, cmd.Process.Pid))
	}
	s.send("(set-option :produce-models true)")
	if strings.HasPrefix(kind, "cvc5") {
		s.send("(set-logic ALL)")
	}
	s.send("(push 1)")
	s.resetMaps()
	return s, nil
}

func (s *Solver) resetMaps() {
	s.names = make(map[*Term]string)
	s.defs = make(map[string]string)
	s.asserted = make(map[string]bool)
	s.vars = make(map[string]int)
	s.order = s.order[:0]
	s.script = s.script[:0]
	s.nonlin = false
	s.n = 0
}

func (s *Solver) Close() {
	if s.cmd != nil {
		s.in.Close()
		s.cmd.Process.Kill()
		s.cmd.Wait()
		s.cmd = nil
	}
}

func (s *Solver) send(line string) {
	if s.logf != nil {
		fmt.Fprintln(s.logf, line)
	}
	io.WriteString(s.in, line)
	io.WriteString(s.in, "\n")
}

func (s *Solver) sendScoped(line string) {
	s.script = append(s.script, line)
	s.send(line)
}

// ResetPath drops every definition and assertion of the current path.
func (s *Solver) ResetPath() {
	s.send("(pop 1)")
	s.send("(push 1)")
	s.resetMaps()
}

func (s *Solver) ref(t *Term) string {
	switch t.Op {
	case OpConst:
		return constStr(t)
	case OpVar:
		if _, ok := s.vars[t.Name]; !ok {
			s.vars[t.Name] = t.W
			s.order = append(s.order, t.Name)
			s.sendScoped(fmt.Sprintf("(declare-const %s %s)", smtName(t.Name), sortStr(t.W)))
		}
		return smtName(t.Name)
	}
	if n, ok := s.names[t]; ok {
		return n
	}
	args := make([]string, len(t.Args))
	for i, a := range t.Args {
		args[i] = s.ref(a)
	}
	var body string
	switch t.Op {
	case OpZExt:
		body = fmt.Sprintf("((_ zero_extend %d) %s)", t.W-t.Args[0].W, args[0])
	case OpSExt:
		body = fmt.Sprintf("((_ sign_extend %d) %s)", t.W-t.Args[0].W, args[0])
	case OpExtract:
		body = fmt.Sprintf("((_ extract %d %d) %s)", t.Hi, t.Lo, args[0])
	case OpMul, OpUDiv, OpURem, OpSDiv, OpSRem:
		if hasNonlinear(t, map[*Term]bool{}) {
			s.nonlin = true
		}
		body = "(" + opNames[t.Op] + " " + strings.Join(args, " ") + ")"
	default:
		body = "(" + opNames[t.Op] + " " + strings.Join(args, " ") + ")"
	}
	if n, ok := s.defs[body]; ok {
		s.names[t] = n
		return n
	}
	s.n++
	name := "t" + strconv.Itoa(s.n)
	s.sendScoped(fmt.Sprintf("(define-fun %s () %s %s)", name, sortStr(t.W), body))
	s.names[t] = name
	s.defs[body] = name
	return name
}

func smtName(n string) string { return "|" + n + "|" }

// Assert adds t to the path condition (no check).
func (s *Solver) Assert(t *Term) {
	if t.IsTrue() {
		return
	}
	r := s.ref(t)
	if s.asserted[r] {
		return
	}
	s.asserted[r] = true
	s.sendScoped("(assert " + r + ")")
}

// Known reports whether t (or its negation) is literally one of the asserted path conjuncts.
func (s *Solver) Known(t *Term) (val bool, known bool) {
	if t.IsConst() {
		return t.C == 1, true
	}
	if s.asserted[s.ref(t)] {
		return true, true
	}
	if s.asserted[s.ref(Not(t))] {
		return false, true
	}
	return false, false
}

func (s *Solver) readLine() (string, error) {
	l, err := s.out.ReadString('\n')
	return strings.TrimSpace(l), err
}

// Check decides pathcondition ∧ extra. With wantModel and a sat answer the model of all declared
// variables is returned.
func (s *Solver) Check(extra *Term, wantModel bool) (SatResult, Model) {
	if extra != nil && extra.IsFalse() {
		return Unsat, nil
	}
	var r string
	if extra != nil {
		r = s.ref(extra) // definitions stay in the path scope
	}
	start := time.Now()
	s.send("(push 1)")
	if extra != nil {
		s.send("(assert " + r + ")")
	}
	s.send("(check-sat)")
	res := Unknown
	for {
		l, err := s.readLine()
		if err != nil {
			fmt.Fprintf(os.Stderr, "solver %s died: %v\n", s.kind, err)
			s.Unknowns++
			return Unknown, nil
		}
		if l == "" {
			continue
		}
		switch {
		case l == "sat":
			res = Sat
		case l == "unsat":
			res = Unsat
		case l == "unknown" || strings.HasPrefix(l, "timeout"):
			res = Unknown
		case strings.HasPrefix(l, "(error"):
			fmt.Fprintf(os.Stderr, "solver %s: %s\n", s.kind, l)
			res = Unknown
			// an error line is not followed by an answer for that command in z3; keep reading
			continue
		default:
			fmt.Fprintf(os.Stderr, "solver %s: unexpected %q\n", s.kind, l)
			continue
		}
		break
	}
	var m Model
	if res == Sat && wantModel {
		m = s.getModel()
	}
	s.send("(pop 1)")
	s.Queries++
	s.SolveTime += time.Since(start)
	if res == Unknown && s.nonlin && strings.HasPrefix(s.kind, "z3") {
		// multiplication / division kernels: retry on the integer encoding back end
		return s.checkExternal("cvc5-int", extra, wantModel)
	}
	if res == Unknown {
		s.Unknowns++
	}
	return res, m
}

func (s *Solver) getModel() Model {
	m := Model{}
	if len(s.order) == 0 {
		return m
	}
	var sb strings.Builder
	sb.WriteString("(get-value (")
	for _, n := range s.order {
		sb.WriteString(smtName(n))
		sb.WriteString(" ")
	}
	sb.WriteString("))")
	s.send(sb.String())
	// read a balanced s-expression
	var text strings.Builder
	depth := 0
	started := false
	inBar := false
	for !started || depth > 0 {
		b, err := s.out.ReadByte()
		if err != nil {
			break
		}
		text.WriteByte(b)
		if b == '|' {
			inBar = !inBar
		}
		if inBar {
			continue
		}
		if b == '(' {
			depth++
			started = true
		} else if b == ')' {
			depth--
		}
	}
	parseModel(text.String(), m)
	return m
}

// parseModel reads "((|a| #x0f) (b true) (c (_ bv5 8)) ...)"; symbols may or may not be quoted.
func parseModel(txt string, m Model) {
	i := 0
	n := len(txt)
	skipWS := func() {
		for i < n && (txt[i] == ' ' || txt[i] == '\n' || txt[i] == '\t' || txt[i] == '\r') {
			i++
		}
	}
	readSym := func() string {
		skipWS()
		if i < n && txt[i] == '|' {
			j := strings.IndexByte(txt[i+1:], '|')
			if j < 0 {
				i = n
				return ""
			}
			sym := txt[i+1 : i+1+j]
			i += j + 2
			return sym
		}
		st := i
		for i < n && txt[i] != ' ' && txt[i] != ')' && txt[i] != '(' && txt[i] != '\n' {
			i++
		}
		return txt[st:i]
	}
	skipWS()
	if i < n && txt[i] == '(' {
		i++
	}
	for {
		skipWS()
		if i >= n || txt[i] != '(' {
			return
		}
		i++
		name := readSym()
		skipWS()
		var v uint64
		if i < n && txt[i] == '(' { // (_ bvN w)
			j := strings.IndexByte(txt[i:], ')')
			f := strings.Fields(txt[i+1 : i+j])
			if len(f) >= 2 && strings.HasPrefix(f[1], "bv") {
				v, _ = strconv.ParseUint(f[1][2:], 10, 64)
			}
			i += j + 1
		} else {
			tok := readSym()
			switch {
			case tok == "true":
				v = 1
			case tok == "false":
				v = 0
			case strings.HasPrefix(tok, "#x"):
				v, _ = strconv.ParseUint(tok[2:], 16, 64)
			case strings.HasPrefix(tok, "#b"):
				v, _ = strconv.ParseUint(tok[2:], 2, 64)
			}
		}
		m[name] = v
		skipWS()
		if i < n && txt[i] == ')' {
			i++
		}
	}
}

// checkExternal replays the path script on a fresh one-shot solver of another kind.
func (s *Solver) checkExternal(kind string, extra *Term, wantModel bool) (SatResult, Model) {
	var r string
	if extra != nil {
		r = s.ref(extra)
	}
	start := time.Now()
	o, err := NewSolver(kind)
	if err != nil {
		s.Unknowns++
		return Unknown, nil
	}
	defer o.Close()
	for _, l := range s.script {
		o.send(l)
	}
	o.order = append(o.order[:0], s.order...)
	if extra != nil {
		o.send("(assert " + r + ")")
	}
	o.send("(check-sat)")
	if d := os.Getenv("GOSYM_DUMP"); d != "" {
		dumpSeq++
		var sb strings.Builder
		for _, l := range s.script {
			sb.WriteString(l + "\n")
		}
		if extra != nil {
			sb.WriteString("(assert " + r + ")\n")
		}
		sb.WriteString("(check-sat)\n(get-model)\n")
		os.WriteFile(fmt.Sprintf("%s/q-%d.smt2", d, dumpSeq), []byte(sb.String()), 0644)
	}
	res := Unknown
	for {
		l, err := o.readLine()
		if err != nil {
			break
		}
		if l == "" {
			continue
		}
		if l == "sat" {
			res = Sat
		} else if l == "unsat" {
			res = Unsat
		} else if strings.HasPrefix(l, "(error") {
			fmt.Fprintf(os.Stderr, "solver %s: %s\n", kind, l)
			continue
		}
		break
	}
	var m Model
	if res == Sat && wantModel {
		m = o.getModel()
	}
	s.Queries++
	s.SolveTime += time.Since(start)
	if res == Unknown {
		s.Unknowns++
	}
	return res, m
}

// CrossCheck re-discharges pathcondition ∧ extra on another solver kind and returns its verdict.
func (s *Solver) CrossCheck(kind string, extra *Term) SatResult {
	r, _ := s.checkExternal(kind, extra, false)
	return r
}
