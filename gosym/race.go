package main

import (
	"fmt"
	"path/filepath"
	"strings"

	"golang.org/x/tools/go/ssa"
)

// Happens-before data-race detection over the explored schedules (harness parameter RACE=1).
//
// Every goroutine carries a vector clock; channel operations, close, mutexes, RW mutexes,
// WaitGroups, atomics, go statements and the model hooks v.HBRelease/v.HBAcquire transfer clocks
// as the Go memory model prescribes. Plain loads and stores, map operations and copy/append
// performed by functions of the library under test (not by models, harness code or the standard
// library) are checked against the last write and the reads since: two accesses to the same
// location, at least one a write, by different goroutines and not ordered by happens-before are
// reported - whatever order the current schedule happened to run them in.

type vclock []int32

func (a vclock) get(i int) int32 {
	if i < len(a) {
		return a[i]
	}
	return 0
}

func vcJoin(dst vclock, src vclock) vclock {
	for len(dst) < len(src) {
		dst = append(dst, 0)
	}
	for i, x := range src {
		if x > dst[i] {
			dst[i] = x
		}
	}
	return dst
}

func vcCopy(a vclock) vclock { return append(vclock(nil), a...) }

type raceAccess struct {
	g   int
	clk int32
	fn  string
}

type raceShadow struct {
	w     raceAccess
	hasW  bool
	reads []raceAccess
}

type raceState struct {
	cells map[*Cell]*raceShadow
	maps  map[*MapObj]*raceShadow
	sync  map[any]vclock
	done  bool // one report per path
}

func (e *Exec) raceReset() {
	e.raceOn = e.X.cfg.Params["RACE"] != 0
	e.race = nil
	if e.raceOn {
		e.race = &raceState{cells: map[*Cell]*raceShadow{}, maps: map[*MapObj]*raceShadow{}, sync: map[any]vclock{}}
	}
}

func (e *Exec) gvc(g *Goroutine) vclock {
	for len(g.vc) <= g.id {
		g.vc = append(g.vc, 0)
	}
	if g.vc[g.id] == 0 {
		g.vc[g.id] = 1
	}
	return g.vc
}

func (e *Exec) tick(g *Goroutine) {
	e.gvc(g)
	g.vc[g.id]++
}

// sendVC: the clock a message (or any release) carries; the releasing goroutine moves on.
func (e *Exec) sendVC() vclock {
	if !e.raceOn || e.cur == nil {
		return nil
	}
	c := vcCopy(e.gvc(e.cur))
	e.tick(e.cur)
	return c
}

func (e *Exec) acquireVC(vc vclock) {
	if !e.raceOn || e.cur == nil || vc == nil {
		return
	}
	e.cur.vc = vcJoin(e.gvc(e.cur), vc)
}

func (e *Exec) hbRelease(key any) {
	if !e.raceOn || e.cur == nil {
		return
	}
	e.race.sync[key] = vcJoin(e.race.sync[key], e.gvc(e.cur))
	e.tick(e.cur)
}

func (e *Exec) hbAcquire(key any) {
	if !e.raceOn || e.cur == nil {
		return
	}
	e.acquireVC(e.race.sync[key])
}

// trackedFn: accesses are checked only in code of the library under test.
func (e *Exec) trackedFn(fn *ssa.Function) bool {
	if v, ok := e.trackedCache[fn]; ok {
		return v
	}
	f := fn
	for f.Parent() != nil {
		f = f.Parent()
	}
	ok := false
	if f.Pkg != nil {
		p := f.Pkg.Pkg.Path()
		if (p == modPath || strings.HasPrefix(p, modPath+"/")) && !strings.Contains(p, "/zz_verif") {
			file := filepath.Base(e.P.prog.Fset.Position(f.Pos()).Filename)
			ok = !strings.HasPrefix(file, "zz_verif_") && file != "" && file != "."
		}
	}
	if e.trackedCache == nil {
		e.trackedCache = map[*ssa.Function]bool{}
	}
	e.trackedCache[fn] = ok
	return ok
}

func (e *Exec) raceCheck(sh *raceShadow, write bool, fr *Frame, what string) {
	g := e.cur
	vc := e.gvc(g)
	me := raceAccess{g: g.id, clk: vc[g.id], fn: fr.fn.String()}
	conflict := func(o raceAccess) bool { return o.g != g.id && o.clk > vc.get(o.g) }
	if sh.hasW && conflict(sh.w) {
		e.raceReport(sh.w, true, me, write, what)
	}
	if write {
		for _, r := range sh.reads {
			if conflict(r) {
				e.raceReport(r, false, me, true, what)
			}
		}
		sh.w, sh.hasW, sh.reads = me, true, sh.reads[:0]
		return
	}
	for i, r := range sh.reads {
		if r.g == g.id {
			sh.reads[i] = me
			return
		}
	}
	sh.reads = append(sh.reads, me)
}

func (e *Exec) raceReport(a raceAccess, aw bool, b raceAccess, bw bool, what string) {
	if e.race.done {
		return
	}
	e.race.done = true
	kind := func(w bool) string {
		if w {
			return "write"
		}
		return "read"
	}
	e.assert(tFalse, fmt.Sprintf("data race on %s: %s in %s (goroutine %d) and %s in %s (goroutine %d) are not ordered by happens-before", what, kind(aw), a.fn, a.g, kind(bw), b.fn, b.g))
}

func (e *Exec) raceCell(c *Cell, write bool, fr *Frame) {
	if !e.raceOn || e.inInit || e.cur == nil || !e.trackedFn(fr.fn) {
		return
	}
	e.raceCellRec(c, write, fr)
}

func (e *Exec) raceCellRec(c *Cell, write bool, fr *Frame) {
	if c.Sub != nil {
		for _, s := range c.Sub {
			e.raceCellRec(s, write, fr)
		}
		return
	}
	sh := e.race.cells[c]
	if sh == nil {
		sh = &raceShadow{}
		e.race.cells[c] = sh
	}
	what := "a variable"
	if c.T != nil {
		what = "a " + c.T.String()
	}
	if c.gname != "" {
		what = c.gname
	}
	e.raceCheck(sh, write, fr, what)
}

func (e *Exec) raceMap(m *MapObj, write bool, fr *Frame) {
	if !e.raceOn || e.inInit || e.cur == nil || m == nil || !e.trackedFn(fr.fn) {
		return
	}
	sh := e.race.maps[m]
	if sh == nil {
		sh = &raceShadow{}
		e.race.maps[m] = sh
	}
	e.raceCheck(sh, write, fr, "a map")
}
