package main

import (
	"fmt"
	"go/types"
	"strings"

	"golang.org/x/tools/go/ssa"
)

// Value is one of: *Term (bool / integer scalar), StrVal, Ptr, SliceVal, MapVal, IfaceVal,
// *FuncVal, ChanVal, *AggVal (struct / array value), TupleVal, *RangeIter, BuiltinVal.
type Value interface{}

type StrVal struct{ B []*Term } // concrete length, one 8-bit term per byte

type Cell struct {
	V     Value   // leaf value (nil for aggregates)
	Sub   []*Cell // struct fields / array elements
	T     types.Type
	Back  *Backing // set for slice backing elements
	Idx   int
	epoch int32
	gname string // for globals / debugging
}

type Ptr struct{ C *Cell }

type Backing struct {
	Elem  types.Type
	N     int // concrete element count (when Wide == false)
	Cells []*Cell
	Wide  bool // symbolic size: elements are materialised sparsely
	Size  *Term
	Wmap  map[int]*Cell
	epoch int32
	id    int
}

type SliceVal struct {
	Back          *Backing // nil => nil slice
	Off, Len, Cap *Term    // 64-bit terms (concrete in the common case)
}

type MapObj struct {
	KT, VT types.Type
	Keys   []Value
	Vals   []Value
	epoch  int32
}

type MapVal struct{ M *MapObj }

type IfaceVal struct {
	T types.Type // dynamic type; nil => nil interface
	V Value
}

type FuncVal struct {
	Fn   *ssa.Function
	Bind []Value
	Bi   *ssa.Builtin
}

type ChanVal struct{ C *ChanObj }

type AggVal struct{ F []Value }

type TupleVal []Value

type RangeIter struct {
	isMap bool
	m     *MapObj
	keys  []Value
	vals  []Value
	s     StrVal
	pos   int
}

func strOf(s string) StrVal {
	b := make([]*Term, len(s))
	for i := 0; i < len(s); i++ {
		b[i] = BV(8, uint64(s[i]))
	}
	return StrVal{b}
}

// concrete string content, ok=false if any byte is symbolic
func (s StrVal) Concrete() (string, bool) {
	var sb strings.Builder
	for _, t := range s.B {
		if !t.IsConst() {
			return "", false
		}
		sb.WriteByte(byte(t.C))
	}
	return sb.String(), true
}

func (s StrVal) String() string {
	var sb strings.Builder
	sb.WriteByte('"')
	for _, t := range s.B {
		if t.IsConst() {
			if t.C >= 32 && t.C < 127 {
				sb.WriteByte(byte(t.C))
			} else {
				fmt.Fprintf(&sb, "\\x%02x", t.C)
			}
		} else {
			sb.WriteString("{" + t.String() + "}")
		}
	}
	sb.WriteByte('"')
	return sb.String()
}

func intW(t types.Type) (w int, signed bool, ok bool) {
	b, isB := t.Underlying().(*types.Basic)
	if !isB {
		return 0, false, false
	}
	switch b.Kind() {
	case types.Bool, types.UntypedBool:
		return 0, false, true
	case types.Int8:
		return 8, true, true
	case types.Int16:
		return 16, true, true
	case types.Int32, types.UntypedRune:
		return 32, true, true
	case types.Int64, types.Int, types.UntypedInt:
		return 64, true, true
	case types.Uint8:
		return 8, false, true
	case types.Uint16:
		return 16, false, true
	case types.Uint32:
		return 32, false, true
	case types.Uint64, types.Uint, types.Uintptr:
		return 64, false, true
	}
	return 0, false, false
}

func isString(t types.Type) bool {
	b, ok := t.Underlying().(*types.Basic)
	return ok && b.Info()&types.IsString != 0
}

func isFloat(t types.Type) bool {
	b, ok := t.Underlying().(*types.Basic)
	return ok && b.Info()&(types.IsFloat|types.IsComplex) != 0
}

type unsupported struct{ msg string }

func unsup(format string, args ...interface{}) {
	panic(unsupported{fmt.Sprintf(format, args...)})
}

// FloatVal keeps concrete floating point constants alive (only concrete arithmetic is supported)
type FloatVal struct{ F float64 }

func zeroValue(t types.Type) Value {
	switch u := t.Underlying().(type) {
	case *types.Basic:
		if w, _, ok := intW(t); ok {
			if w == 0 {
				return tFalse
			}
			return BV(w, 0)
		}
		if u.Info()&types.IsString != 0 {
			return StrVal{}
		}
		if u.Kind() == types.UnsafePointer {
			return Ptr{}
		}
		if u.Info()&types.IsFloat != 0 {
			return FloatVal{0}
		}
		if u.Kind() == types.UntypedNil {
			return nil
		}
		unsup("zero value of basic type %s", t)
	case *types.Pointer:
		return Ptr{}
	case *types.Slice:
		return SliceVal{}
	case *types.Map:
		return MapVal{}
	case *types.Chan:
		return ChanVal{}
	case *types.Interface:
		return IfaceVal{}
	case *types.Signature:
		return (*FuncVal)(nil)
	case *types.Struct:
		a := &AggVal{F: make([]Value, u.NumFields())}
		for i := range a.F {
			a.F[i] = zeroValue(u.Field(i).Type())
		}
		return a
	case *types.Array:
		n := int(u.Len())
		a := &AggVal{F: make([]Value, n)}
		if n > 0 {
			z := zeroValue(u.Elem())
			for i := range a.F {
				a.F[i] = z // values are immutable, sharing is fine
			}
		}
		return a
	case *types.Tuple:
		tv := make(TupleVal, u.Len())
		for i := range tv {
			tv[i] = zeroValue(u.At(i).Type())
		}
		return tv
	}
	unsup("zero value of type %s (%T)", t, t.Underlying())
	return nil
}

func isAgg(t types.Type) bool {
	switch t.Underlying().(type) {
	case *types.Struct, *types.Array:
		return true
	}
	return false
}

func (e *Exec) newCell(t types.Type) *Cell {
	c := &Cell{T: t, epoch: e.epoch}
	switch u := t.Underlying().(type) {
	case *types.Struct:
		c.Sub = make([]*Cell, u.NumFields())
		for i := range c.Sub {
			c.Sub[i] = e.newCell(u.Field(i).Type())
		}
	case *types.Array:
		n := int(u.Len())
		if n > 1<<20 {
			unsup("array of %d elements", n)
		}
		c.Sub = make([]*Cell, n)
		for i := range c.Sub {
			c.Sub[i] = e.newCell(u.Elem())
		}
	default:
		c.V = zeroValue(t)
	}
	return c
}

func (e *Exec) load(c *Cell) Value {
	if c.Sub != nil || isAgg(c.T) {
		a := &AggVal{F: make([]Value, len(c.Sub))}
		for i, s := range c.Sub {
			a.F[i] = e.load(s)
		}
		return a
	}
	return c.V
}

func (e *Exec) store(c *Cell, v Value) {
	if c.Sub != nil || isAgg(c.T) {
		a, ok := v.(*AggVal)
		if !ok {
			panic(fmt.Sprintf("store: aggregate cell %s gets %T", c.T, v))
		}
		for i, s := range c.Sub {
			e.store(s, a.F[i])
		}
		return
	}
	if c.epoch != e.epoch {
		e.undo = append(e.undo, undoRec{c: c, old: c.V})
	}
	c.V = v
}

func (e *Exec) newBacking(elem types.Type, n int) *Backing {
	e.backingSeq++
	return &Backing{Elem: elem, N: n, Cells: make([]*Cell, n), epoch: e.epoch, id: e.backingSeq}
}

func (b *Backing) peek(i int) *Cell {
	if b.Wide {
		return b.Wmap[i]
	}
	return b.Cells[i]
}

func (e *Exec) cellAt(b *Backing, i int) *Cell {
	if b.Wide {
		c := b.Wmap[i]
		if c == nil {
			c = e.newCell(b.Elem)
			c.Back, c.Idx = b, i
			c.epoch = b.epoch
			b.Wmap[i] = c
		}
		return c
	}
	c := b.Cells[i]
	if c == nil {
		c = e.newCell(b.Elem)
		c.Back, c.Idx = b, i
		c.epoch = b.epoch // element state belongs to its backing array for undo purposes
		if b.epoch != e.epoch {
			// materialising an element of a pre-path array: value is the zero value, record so that undo keeps it consistent
			markEpochRec(c, b.epoch)
		}
		b.Cells[i] = c
	}
	return c
}

func markEpochRec(c *Cell, ep int32) {
	c.epoch = ep
	for _, s := range c.Sub {
		markEpochRec(s, ep)
	}
}

func (e *Exec) loadElem(b *Backing, i int) Value {
	c := b.peek(i)
	if c == nil {
		return zeroValue(b.Elem)
	}
	return e.load(c)
}

func konst(n int) *Term { return BV(64, uint64(int64(n))) }

func (e *Exec) mkSlice(b *Backing, off, ln, cp int) SliceVal {
	return SliceVal{Back: b, Off: konst(off), Len: konst(ln), Cap: konst(cp)}
}

// typesIdentical with a fast path
func sameType(a, b types.Type) bool {
	if a == b {
		return true
	}
	return types.Identical(a, b)
}

// valEq builds the Bool term "a == b" following Go's == semantics.
func (e *Exec) valEq(a, b Value) *Term {
	switch x := a.(type) {
	case *Term:
		y := b.(*Term)
		return Eq(x, y)
	case StrVal:
		y := b.(StrVal)
		if len(x.B) != len(y.B) {
			return tFalse
		}
		r := tTrue
		for i := range x.B {
			r = And(r, Eq(x.B[i], y.B[i]))
			if r.IsFalse() {
				return r
			}
		}
		return r
	case Ptr:
		y, ok := b.(Ptr)
		if !ok {
			unsup("pointer compared with %T", b)
		}
		return Bool(x.C == y.C)
	case IfaceVal:
		y, ok := b.(IfaceVal)
		if !ok {
			unsup("interface compared with %T", b)
		}
		if x.T == nil || y.T == nil {
			return Bool(x.T == nil && y.T == nil)
		}
		if !sameType(x.T, y.T) {
			return tFalse
		}
		if !types.Comparable(x.T) {
			e.goPanic("runtime error: comparing uncomparable type " + x.T.String())
		}
		return e.valEq(x.V, y.V)
	case *AggVal:
		y := b.(*AggVal)
		r := tTrue
		for i := range x.F {
			r = And(r, e.valEq(x.F[i], y.F[i]))
			if r.IsFalse() {
				return r
			}
		}
		return r
	case ChanVal:
		return Bool(x.C == b.(ChanVal).C)
	case MapVal:
		return Bool(x.M == b.(MapVal).M)
	case *FuncVal:
		y := b.(*FuncVal)
		if x == nil || y == nil {
			return Bool(x == nil && y == nil)
		}
		unsup("func comparison")
	case SliceVal:
		y := b.(SliceVal)
		if x.Back == nil || y.Back == nil {
			return Bool(x.Back == nil && y.Back == nil)
		}
		unsup("slice comparison")
	case FloatVal:
		return Bool(x.F == b.(FloatVal).F)
	case nil:
		return Bool(b == nil)
	}
	unsup("valEq on %T", a)
	return nil
}

func describe(v Value) string {
	switch x := v.(type) {
	case *Term:
		return x.String()
	case StrVal:
		return x.String()
	case Ptr:
		if x.C == nil {
			return "nil"
		}
		return fmt.Sprintf("&%s", x.C.T)
	case IfaceVal:
		if x.T == nil {
			return "nil"
		}
		return fmt.Sprintf("iface(%s)", x.T)
	case *AggVal:
		parts := make([]string, len(x.F))
		for i, f := range x.F {
			parts[i] = describe(f)
		}
		return "{" + strings.Join(parts, ",") + "}"
	case SliceVal:
		if x.Back == nil {
			return "[]nil"
		}
		return fmt.Sprintf("slice(off=%s,len=%s,cap=%s)", x.Off, x.Len, x.Cap)
	}
	return fmt.Sprintf("%T", v)
}
