package main

import (
	"fmt"
	"go/ast"
	"go/token"
	"go/types"
	"os"
	"path/filepath"
	"sort"
	"strings"

	"golang.org/x/tools/go/packages"
)

// renameHarness is a maintenance mode: every package-level identifier declared in a harness file
// (except the VH_ entry points) gets the given prefix, so that harness helpers cannot collide with
// names a later revision of the library introduces. The harness sources under verif/harness are
// rewritten in place.
func renameHarness(repo, verif, tags, prefix string) error {
	ov, extra, err := buildOverlay(repo, verif)
	if err != nil {
		return err
	}
	cfg := &packages.Config{
		Mode:       packages.LoadAllSyntax,
		Dir:        repo,
		Overlay:    ov,
		BuildFlags: []string{"-tags=" + tags, "-mod=mod"},
		Env:        append(os.Environ(), "GOFLAGS=-mod=mod", "GOPROXY=off", "GOSUMDB=off", "GOTOOLCHAIN=local", "CGO_ENABLED=0"),
	}
	pats := append([]string{modPath, modPath + "/copy", modPath + "/types", modPath + "/util"}, extra...)
	pkgs, err := packages.Load(cfg, pats...)
	if err != nil {
		return err
	}
	for _, p := range pkgs {
		if strings.HasPrefix(p.PkgPath, modPath+"/zz_verif/") || len(p.Errors) > 0 {
			for _, e := range p.Errors {
				fmt.Fprintln(os.Stderr, "load error:", e)
			}
			continue
		}
		isHarness := func(pos token.Pos) bool {
			return strings.HasPrefix(filepath.Base(p.Fset.Position(pos).Filename), "zz_verif_")
		}
		targets := map[types.Object]bool{}
		scope := p.Types.Scope()
		for _, name := range scope.Names() {
			obj := scope.Lookup(name)
			if !isHarness(obj.Pos()) || strings.HasPrefix(name, "VH_") || strings.HasPrefix(name, prefix) || name == "init" || name == "_" {
				continue
			}
			if scope.Lookup(prefix+"_"+name) != nil {
				return fmt.Errorf("%s: %s already exists", p.PkgPath, prefix+"_"+name)
			}
			targets[obj] = true
		}
		for _, f := range p.Syntax {
			fname := p.Fset.Position(f.Pos()).Filename
			if !strings.HasPrefix(filepath.Base(fname), "zz_verif_") {
				continue
			}
			var offs []int
			ast.Inspect(f, func(n ast.Node) bool {
				id, ok := n.(*ast.Ident)
				if !ok {
					return true
				}
				obj := p.TypesInfo.Defs[id]
				if obj == nil {
					obj = p.TypesInfo.Uses[id]
				}
				if obj != nil && targets[obj] {
					offs = append(offs, p.Fset.Position(id.Pos()).Offset)
				}
				return true
			})
			if len(offs) == 0 {
				continue
			}
			src := ov[fname]
			sort.Sort(sort.Reverse(sort.IntSlice(offs)))
			for _, o := range offs {
				src = append(src[:o:o], append([]byte(prefix+"_"), src[o:]...)...)
			}
			dir := "root"
			if rel, _ := filepath.Rel(repo, filepath.Dir(fname)); rel != "." {
				dir = rel
			}
			real := filepath.Join(verif, "harness", dir, strings.TrimPrefix(filepath.Base(fname), "zz_verif_"))
			if err := os.WriteFile(real, src, 0644); err != nil {
				return err
			}
			fmt.Printf("%s: %d identifiers renamed\n", real, len(offs))
		}
	}
	return nil
}
