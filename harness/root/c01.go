package fsutil

import (
	"context"
	"os"

	"github.com/tonistiigi/fsutil/types"
	"github.com/tonistiigi/fsutil/zz_verif/v"
)

// universes of paths, each listed in protocol (component-wise) order
var vh_diffUniverses = [][]string{
	{"a", "a/b", "a-b"},
	{"a", "a/b", "a/b/c"},
	{"a", "a/b", "a-b", "b"},
	{"a", "a/b", "a/b/c", "a0"},
	{"d", "d/x", "d/y", "d.z"},
	{"a", "a/b", "a/c", "a-b", "a-b/c", "b"},
}

func vh_listWalker(l []*currentPath) walkerFn {
	return func(ctx context.Context, pathC chan<- *currentPath) error {
		for _, p := range l {
			select {
			case <-ctx.Done():
				return ctx.Err()
			case pathC <- p:
			}
		}
		return nil
	}
}

func vh_isUnder(p, dir string) bool {
	return len(p) > len(dir)+1 && p[:len(dir)] == dir && p[len(dir)] == '/'
}

func vh_statIsDir(s *types.Stat) bool { return os.FileMode(s.Mode)&os.ModeDir != 0 }

// symTree builds a parent-closed subset of the universe with symbolic stats.
func vh_symTree(tag string, u []string) []*currentPath {
	var out []*currentPath
	for _, p := range u {
		if !v.Bool(tag + ".has") {
			continue
		}
		// parent must be present and a directory
		par := vh_specParent(p)
		if par != "" {
			ok := false
			for _, e := range out {
				if e.path == par && vh_statIsDir(e.stat) {
					ok = true
				}
			}
			v.Assume(ok)
		}
		st := &types.Stat{Path: p, Mode: v.U32(tag + ".mode"), Size: v.I64(tag + ".size")}
		if v.Param("FULL", 0) != 0 {
			st.Uid, st.ModTime = v.U32(tag+".uid"), v.I64(tag+".mtime")
		}
		out = append(out, &currentPath{path: p, stat: st})
	}
	return out
}

type vh_modelEntry struct {
	path string
	stat *types.Stat
}

type vh_diffEvent struct {
	kind ChangeKind
	path string
	stat *types.Stat
}

// applyEvents is the reference semantics of a change stream: delete removes the path and its
// subtree; add/modify sets the entry and, when a directory becomes a non-directory, drops the subtree.
func vh_applyEvents(old []*currentPath, evs []vh_diffEvent) []vh_modelEntry {
	var m []vh_modelEntry
	for _, e := range old {
		m = append(m, vh_modelEntry{e.path, e.stat})
	}
	for _, ev := range evs {
		var next []vh_modelEntry
		switch ev.kind {
		case ChangeKindDelete:
			for _, e := range m {
				if e.path != ev.path && !vh_isUnder(e.path, ev.path) {
					next = append(next, e)
				}
			}
		default:
			placed := false
			for _, e := range m {
				if e.path == ev.path {
					next = append(next, vh_modelEntry{ev.path, ev.stat})
					placed = true
					continue
				}
				if vh_isUnder(e.path, ev.path) && !vh_statIsDir(ev.stat) {
					continue
				}
				next = append(next, e)
			}
			if !placed {
				next = append(next, vh_modelEntry{ev.path, ev.stat})
			}
		}
		m = next
	}
	return m
}

// VH_C01_diff: for every pair (lower, upper) of parent-closed trees over the universe with symbolic
// stats, applying the change stream doubleWalkDiff emits to lower yields upper (same path set,
// identity-equal stats); and a change is emitted for a path exactly when it is new, gone
// (top-most, or below something already removed), or its identity differs (C02 minimality, C05(i)).
func VH_C01_diff() {
	u := vh_diffUniverses[v.Param("U", 0)]
	lower, upper := vh_symTree("lo", u), vh_symTree("up", u)
	var evs []vh_diffEvent
	changeFn := func(kind ChangeKind, p string, fi os.FileInfo, err error) error {
		var st *types.Stat
		if fi != nil {
			st, _ = fi.Sys().(*types.Stat)
		}
		evs = append(evs, vh_diffEvent{kind, p, st})
		return nil
	}
	err := doubleWalkDiff(context.Background(), changeFn, vh_listWalker(lower), vh_listWalker(upper), nil, DiffMetadata)
	v.Assert(err == nil, "doubleWalkDiff succeeds on list walkers")
	v.Observe("events", len(evs))
	res := vh_applyEvents(lower, evs)
	// same path set and identity
	v.Assert(len(res) == len(upper), "apply(changes, lower) has exactly the paths of upper")
	for _, want := range upper {
		found := false
		for _, got := range res {
			if got.path == want.path {
				found = true
				v.Assert(vh_specIdentity(got.stat, want.stat), "apply(changes, lower) carries the identity of upper for every path")
			}
		}
		v.Assert(found, "every path of upper is present after applying the changes")
	}
	// minimality: exactly one event per changed path, none for unchanged ones
	for _, p := range u {
		var lo, up *types.Stat
		for _, e := range lower {
			if e.path == p {
				lo = e.stat
			}
		}
		for _, e := range upper {
			if e.path == p {
				up = e.stat
			}
		}
		n := 0
		var ev vh_diffEvent
		for _, e := range evs {
			if e.path == p {
				n++
				ev = e
			}
		}
		switch {
		case lo == nil && up == nil:
			v.Assert(n == 0, "no event for a path in neither tree")
		case lo == nil:
			v.Cover("added")
			v.Assert(n == 1 && ev.kind == ChangeKindAdd && ev.stat == up, "exactly one add, with the upper stat, for a new path")
		case up == nil:
			v.Cover("removed")
			v.Assert(n <= 1 && (n == 0 || ev.kind == ChangeKindDelete), "at most one delete for a removed path")
			if n == 0 {
				// only allowed below a path that was itself deleted or replaced by a non-directory
				covered := false
				for _, e := range evs {
					if vh_isUnder(p, e.path) && (e.kind == ChangeKindDelete || !vh_statIsDir(e.stat)) {
						covered = true
					}
				}
				v.Assert(covered, "a removed path without its own delete lies below a removed or replaced directory")
			}
		default:
			if vh_specIdentity(lo, up) {
				v.Cover("unchanged")
				v.Assert(n == 0, "no event for a path whose identity is unchanged")
			} else {
				v.Cover("modified")
				v.Assert(n == 1 && ev.kind == ChangeKindModify && ev.stat == up, "exactly one modify, with the upper stat, for a changed path")
			}
		}
	}
	v.Assert(v.Goroutines() == 0, "every goroutine started by the diff has ended")
}
