package fsutil

import (
	"context"
	"io"
	gofs "io/fs"
	"os"

	"github.com/tonistiigi/fsutil/types"
	"github.com/tonistiigi/fsutil/zz_verif/v"
)

// ---------------------------------------------------------------- in-memory source view

type vh_memEntry struct {
	stat *types.Stat
	data []byte
	// openErr makes Open fail for this entry
	openErr bool
	// readErrAfter > 0: reads fail once readErrAfter-1 bytes were handed out
	readErrAfter int
}

// memFS is a synthetic FS view: entries listed in protocol order, contents in memory; Open hands
// the bytes out in solver-chosen fragments.
type vh_memFS struct {
	entries    []*vh_memEntry
	walkErrAt  int // index at which Walk reports an error (-1: never)
	wholeReads bool
	readGate   chan struct{} // non-nil: file reads block until it is closed (closed when Walk returns)
	readStep   int // > 0: every read hands out exactly this many bytes (no solver choice)
}

func (f *vh_memFS) Walk(ctx context.Context, target string, fn gofs.WalkDirFunc) error {
	if f.readGate != nil {
		defer close(f.readGate)
	}
	for i, e := range f.entries {
		if i == f.walkErrAt {
			return fn(e.stat.Path, nil, vh_errInjected)
		}
		st := e.stat.Clone()
		if err := fn(st.Path, &DirEntryInfo{Stat: st}, nil); err != nil {
			if err == gofs.SkipDir {
				continue
			}
			return err
		}
	}
	return nil
}

var vh_errInjected = &os.PathError{Op: "injected", Path: "x", Err: os.ErrInvalid}

func (f *vh_memFS) Open(p string) (io.ReadCloser, error) {
	for _, e := range f.entries {
		if e.stat.Path == p {
			if e.openErr {
				return nil, vh_errInjected
			}
			return &vh_fragFile{data: e.data, failAfter: e.readErrAfter, whole: f.wholeReads, step: f.readStep, gate: f.readGate}, nil
		}
	}
	return nil, os.ErrNotExist
}

type vh_fragFile struct {
	data      []byte
	pos       int
	failAfter int  // >0: return an error once failAfter-1 bytes were handed out
	whole     bool // hand out everything in one read
	step      int  // > 0: fixed fragment size
	gate      chan struct{}
}

func (r *vh_fragFile) Read(p []byte) (int, error) {
	if r.gate != nil {
		<-r.gate
	}
	if r.failAfter > 0 && r.pos >= r.failAfter-1 {
		return 0, vh_errInjected
	}
	rem := len(r.data) - r.pos
	if rem == 0 {
		return 0, io.EOF
	}
	if r.whole || r.failAfter > 0 {
		n := copy(p, r.data[r.pos:])
		if r.failAfter > 0 && r.pos+n > r.failAfter-1 {
			n = r.failAfter - 1 - r.pos
		}
		r.pos += n
		return n, nil
	}
	max := len(p)
	if rem < max {
		max = rem
	}
	if max == 0 {
		return 0, nil
	}
	if r.step > 0 {
		n := r.step
		if n > max {
			n = max
		}
		copy(p, r.data[r.pos:r.pos+n])
		r.pos += n
		return n, nil
	}
	n := 1 + v.Choose("read", max)
	copy(p, r.data[r.pos:r.pos+n])
	r.pos += n
	if r.pos == len(r.data) && v.Bool("eof-with-last-bytes") {
		return n, io.EOF // io.Reader allows the final bytes and the end marker in one call
	}
	return n, nil
}

func (r *vh_fragFile) Close() error { return nil }

// entry classes used by the harnesses
const (
	vh_clsDir = iota
	vh_clsFile
	vh_clsSymlink
	vh_clsFifo
	vh_clsCount
)

func vh_modeFor(class int, perm uint32) uint32 {
	perm &= 0777
	switch class {
	case vh_clsDir:
		return uint32(os.ModeDir) | perm
	case vh_clsSymlink:
		return uint32(os.ModeSymlink) | perm
	case vh_clsFifo:
		return uint32(os.ModeNamedPipe) | perm
	}
	return perm
}

// ---------------------------------------------------------------- in-memory stream

// memStream is one end of a duplex packet channel; packets are deep-copied on send so that the
// two ends never share buffers.
type vh_memStream struct {
	ctx          context.Context
	in           chan *types.Packet
	out          chan *types.Packet
	sendErrAt    int // SendMsg number (1-based) that fails; 0: never
	recvErrAt    int
	sends, recvs int
	brk          chan struct{} // closed when the transport is torn down (shared by both ends)
	gotFIN       bool          // a FIN packet was delivered to this end
	onSend       func(n int)   // hook called before the n-th SendMsg
	reqs         []uint32      // ids of the REQ packets sent through this end
	latency      bool          // SendMsg returns only after everything else had a chance to react to the packet
	sendBusy     bool          // a SendMsg is in flight on this end
	recvBusy     bool          // a RecvMsg is in flight on this end
	overlap      bool          // two SendMsg (or two RecvMsg) calls were in flight at once
}

func vh_newStreamPair(ctx context.Context, capacity int) (*vh_memStream, *vh_memStream) {
	return vh_newStreamPair2(ctx, capacity, capacity)
}

// vh_newStreamPair2: separate capacities for the two directions (first end to second, second to first).
func vh_newStreamPair2(ctx context.Context, capAB, capBA int) (*vh_memStream, *vh_memStream) {
	a2b, b2a := make(chan *types.Packet, capAB), make(chan *types.Packet, capBA)
	brk := make(chan struct{})
	return &vh_memStream{ctx: ctx, in: b2a, out: a2b, brk: brk}, &vh_memStream{ctx: ctx, in: a2b, out: b2a, brk: brk}
}

func vh_copyPacket(p *types.Packet) *types.Packet {
	q := &types.Packet{Type: p.Type, ID: p.ID}
	if p.Stat != nil {
		q.Stat = p.Stat.Clone()
	}
	if p.Data != nil {
		q.Data = append([]byte{}, p.Data...)
	}
	return q
}

func (s *vh_memStream) SendMsg(m interface{}) error {
	if s.sendBusy {
		s.overlap = true
	}
	s.sendBusy = true
	defer func() { s.sendBusy = false }()
	v.Jitter()
	s.sends++
	if s.onSend != nil {
		s.onSend(s.sends)
	}
	if s.sends == s.sendErrAt {
		return vh_errInjected
	}
	select {
	case <-s.brk:
		return vh_errBroken
	default:
	}
	if pk := m.(*types.Packet); pk.Type == types.PACKET_REQ {
		s.reqs = append(s.reqs, pk.ID)
	}
	select {
	case s.out <- vh_copyPacket(m.(*types.Packet)):
		v.Jitter()
		if s.latency {
			v.Yield() // a transport whose SendMsg returns some time after the peer has seen the packet
		}
		return nil
	case <-s.brk:
		return vh_errBroken
	}
}

var vh_errBroken = &os.PathError{Op: "stream", Path: "torn down", Err: os.ErrClosed}

// Break tears the transport down: every pending and future stream call on either end fails.
func (s *vh_memStream) Break() {
	select {
	case <-s.brk:
	default:
		close(s.brk)
	}
}

func (s *vh_memStream) RecvMsg(m interface{}) error {
	if s.recvBusy {
		s.overlap = true
	}
	s.recvBusy = true
	defer func() { s.recvBusy = false }()
	s.recvs++
	if s.recvs == s.recvErrAt {
		return vh_errInjected
	}
	var p *types.Packet
	var ok bool
	select {
	case p, ok = <-s.in:
	case <-s.brk:
		return vh_errBroken
	}
	if !ok {
		return io.EOF
	}
	if p.Type == types.PACKET_FIN {
		s.gotFIN = true
	}
	dst := m.(*types.Packet)
	dst.Type, dst.ID, dst.Stat = p.Type, p.ID, p.Stat
	dst.Data = append(dst.Data[:0], p.Data...)
	return nil
}

func (s *vh_memStream) Context() context.Context { return s.ctx }

func (s *vh_memStream) CloseSend() { close(s.out) }
