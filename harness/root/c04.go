package fsutil

import (
	"context"
	"hash"
	"os"

	"github.com/tonistiigi/fsutil/types"
	"github.com/tonistiigi/fsutil/zz_verif/m"
	"github.com/tonistiigi/fsutil/zz_verif/v"
)

const (
	vh_faultNone = iota
	vh_faultSenderSend
	vh_faultSenderRecv
	vh_faultReceiverSend
	vh_faultReceiverRecv
	vh_faultWalk
	vh_faultRead
	vh_faultOpen
	vh_faultHasher
	vh_faultNotify
	vh_faultCancel
	vh_faultKinds
)

// runTransfer runs the real Send over view and the real Receive into dest, connected by the
// in-memory stream, with one injected fault. Once nothing can make progress any more the caller
// tears the transport down (the property's "once the stream is torn down") and both calls must
// return.
func vh_runTransfer(view *vh_memFS, dest string, kind, k int) (sendErr, recvErr error, finAcked bool) {
	ctx, cancel := context.WithCancel(context.Background())
	defer cancel()
	s1, s2 := vh_newStreamPair(ctx, 512)
	opt := ReceiveOpt{}
	switch kind {
	case vh_faultSenderSend:
		s1.sendErrAt = k
	case vh_faultSenderRecv:
		s1.recvErrAt = k
	case vh_faultReceiverSend:
		s2.sendErrAt = k
	case vh_faultReceiverRecv:
		s2.recvErrAt = k
	case vh_faultWalk:
		view.walkErrAt = (k - 1) % len(view.entries)
	case vh_faultRead:
		for _, e := range view.entries {
			if len(e.data) >= 2 {
				e.readErrAfter = 2 // fails after one byte was handed out
			}
		}
	case vh_faultOpen:
		for _, e := range view.entries {
			if len(e.data) >= 2 {
				e.openErr = true
			}
		}
	case vh_faultCancel:
		s1.onSend = func(n int) {
			if n == k {
				cancel()
			}
		}
	}
	if kind == vh_faultHasher || kind == vh_faultNotify {
		calls := 0
		opt.ContentHasher = func(st *types.Stat) (hash.Hash, error) {
			if kind == vh_faultHasher {
				calls++
				if calls == k {
					return nil, vh_errInjected
				}
			}
			return &vh_recHash{}, nil
		}
		opt.NotifyHashed = func(ChangeKind, string, os.FileInfo, error) error {
			if kind == vh_faultNotify {
				calls++
				if calls == k {
					return vh_errInjected
				}
			}
			return nil
		}
	}
	sendDone, recvDone := make(chan struct{}), make(chan struct{})
	go func() {
		sendErr = Send(ctx, s1, view, nil)
		// a sender that succeeded closes its direction; one that failed either hangs up as well
		// (the peer sees a clean end of stream before FIN) or leaves the stream open
		if sendErr == nil || v.Bool("sender-hangs-up") {
			s1.CloseSend()
		}
		close(sendDone)
	}()
	go func() {
		recvErr = Receive(ctx, s2, dest, opt)
		close(recvDone)
	}()
	v.Yield() // everything else has run until it blocked or ended
	isDone := func(c chan struct{}) bool {
		select {
		case <-c:
			return true
		default:
			return false
		}
	}
	if !isDone(sendDone) || !isDone(recvDone) {
		v.Cover("teardown-needed")
		// the stream is torn down; the caller's context may or may not be cancelled with it
		if v.Bool("cancel-with-teardown") {
			cancel()
		}
		s1.Break()
	}
	<-sendDone
	<-recvDone
	return sendErr, recvErr, s1.gotFIN
}

func vh_c04View() *vh_memFS {
	mk := func(p string, class int, data []byte) *vh_memEntry {
		e := &vh_memEntry{stat: &types.Stat{Path: p, Mode: vh_modeFor(class, 0755), Uid: 1, Gid: 1, ModTime: vh_mtimes()[0], Size: int64(len(data))}, data: data}
		return e
	}
	return &vh_memFS{walkErrAt: -1, wholeReads: true, entries: []*vh_memEntry{
		mk("d", vh_clsDir, nil),
		mk("d/f", vh_clsFile, v.Bytes("f", 1)),
		mk("e", vh_clsFile, v.Bytes("e", 2)),
	}}
}

func vh_destEqualsView(dest string, view *vh_memFS) bool {
	snap := m.Snapshot(dest)
	if len(snap) != len(view.entries) {
		return false
	}
	ok := true
	for _, e := range view.entries {
		found := false
		for i := range snap {
			if snap[i].Path == e.stat.Path {
				found = true
				if os.FileMode(e.stat.Mode).IsDir() {
					ok = v.And(ok, snap[i].Kind == m.KDir)
				} else {
					ok = v.And(ok, snap[i].Kind == m.KFile, string(snap[i].Data) == string(e.data), snap[i].Mtime == e.stat.ModTime, snap[i].Uid == e.stat.Uid)
				}
			}
		}
		ok = v.And(ok, found)
	}
	return ok
}

// VH_C04_faults: one fault of a solver-chosen kind at a solver-chosen operation index during a
// transfer (real Send over a synthetic view, real Receive on the model file system). After the
// transport is torn down both calls return and every goroutine they started ends; Receive reports
// success only if the destination equals the source view, Send only if the receiver's FIN reached
// it; and a later fault-free transfer into whatever was left behind converges.
func VH_C04_faults() {
	m.Reset()
	dest := m.Root("dest")
	if v.Bool("dirty") {
		m.MkFile(dest+"/e", []byte("old"), 0600, 7, 7, 5)
		m.MkFile(dest+"/zz", []byte("z"), 0600, 7, 7, 5)
	}
	kind := v.Choose("fault", vh_faultKinds)
	k := 1 + v.Choose("k", v.Param("K", 8))
	view := vh_c04View()
	sendErr, recvErr, fin := vh_runTransfer(view, dest, kind, k)
	v.Observe("send-ok", sendErr == nil)
	v.Observe("recv-ok", recvErr == nil)
	v.Assert(v.Goroutines() == 0, "after teardown every goroutine started by Send and Receive has ended")
	if recvErr == nil {
		v.Cover("receive-success")
		if kind == vh_faultOpen {
			v.Assert(vh_destEqualsView(dest, view), "Receive returns success only if the destination equals the source view [class: announced source file cannot be opened]")
		} else {
			v.Assert(vh_destEqualsView(dest, view), "Receive returns success only if the destination equals the source view")
		}
	} else {
		v.Cover("receive-failure")
	}
	if sendErr == nil {
		v.Cover("send-success")
		v.Assert(fin, "Send returns success only if the receiver acknowledged completion")
	} else {
		v.Cover("send-failure")
	}
	if kind == vh_faultNone {
		v.Assert(sendErr == nil && recvErr == nil, "a fault-free transfer succeeds")
	}
	// a later fault-free transfer into whatever the aborted run left behind converges
	view2 := vh_c04View()
	for i, e := range view2.entries {
		e.data = view.entries[i].data
	}
	sendErr, recvErr, _ = vh_runTransfer(view2, dest, vh_faultNone, 0)
	v.Assert(sendErr == nil && recvErr == nil, "a fault-free transfer after an aborted one succeeds")
	v.Assert(vh_destEqualsView(dest, view2), "a fault-free transfer after an aborted one converges to the source view")
	v.Assert(v.Goroutines() == 0, "no goroutine is left behind")
}
