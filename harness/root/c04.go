package fsutil

import (
	"context"
	"hash"
	"os"

	"github.com/tonistiigi/fsutil/types"
	"github.com/tonistiigi/fsutil/zz_verif/m"
	"github.com/tonistiigi/fsutil/zz_verif/v"
)

const (
	faultNone = iota
	faultSenderSend
	faultSenderRecv
	faultReceiverSend
	faultReceiverRecv
	faultWalk
	faultRead
	faultOpen
	faultHasher
	faultNotify
	faultCancel
	faultKinds
)

// runTransfer runs the real Send over view and the real Receive into dest, connected by the
// in-memory stream, with one injected fault. Once nothing can make progress any more the caller
// tears the transport down (the property's "once the stream is torn down") and both calls must
// return.
func runTransfer(view *memFS, dest string, kind, k int) (sendErr, recvErr error, finAcked bool) {
	ctx, cancel := context.WithCancel(context.Background())
	defer cancel()
	s1, s2 := newStreamPair(ctx, 512)
	opt := ReceiveOpt{}
	switch kind {
	case faultSenderSend:
		s1.sendErrAt = k
	case faultSenderRecv:
		s1.recvErrAt = k
	case faultReceiverSend:
		s2.sendErrAt = k
	case faultReceiverRecv:
		s2.recvErrAt = k
	case faultWalk:
		view.walkErrAt = (k - 1) % len(view.entries)
	case faultRead:
		for _, e := range view.entries {
			if len(e.data) >= 2 {
				e.readErrAfter = 2 // fails after one byte was handed out
			}
		}
	case faultOpen:
		for _, e := range view.entries {
			if len(e.data) >= 2 {
				e.openErr = true
			}
		}
	case faultCancel:
		s1.onSend = func(n int) {
			if n == k {
				cancel()
			}
		}
	}
	if kind == faultHasher || kind == faultNotify {
		calls := 0
		opt.ContentHasher = func(st *types.Stat) (hash.Hash, error) {
			if kind == faultHasher {
				calls++
				if calls == k {
					return nil, errInjected
				}
			}
			return &recHash{}, nil
		}
		opt.NotifyHashed = func(ChangeKind, string, os.FileInfo, error) error {
			if kind == faultNotify {
				calls++
				if calls == k {
					return errInjected
				}
			}
			return nil
		}
	}
	sendDone, recvDone := make(chan struct{}), make(chan struct{})
	go func() {
		sendErr = Send(ctx, s1, view, nil)
		// a sender that succeeded closes its direction; one that failed either hangs up as well
		// (the peer sees a clean end of stream before FIN) or leaves the stream open
		if sendErr == nil || v.Bool("sender-hangs-up") {
			s1.CloseSend()
		}
		close(sendDone)
	}()
	go func() {
		recvErr = Receive(ctx, s2, dest, opt)
		close(recvDone)
	}()
	v.Yield() // everything else has run until it blocked or ended
	isDone := func(c chan struct{}) bool {
		select {
		case <-c:
			return true
		default:
			return false
		}
	}
	if !isDone(sendDone) || !isDone(recvDone) {
		v.Cover("teardown-needed")
		// the stream is torn down; the caller's context may or may not be cancelled with it
		if v.Bool("cancel-with-teardown") {
			cancel()
		}
		s1.Break()
	}
	<-sendDone
	<-recvDone
	return sendErr, recvErr, s1.gotFIN
}

func c04View() *memFS {
	mk := func(p string, class int, data []byte) *memEntry {
		e := &memEntry{stat: &types.Stat{Path: p, Mode: modeFor(class, 0755), Uid: 1, Gid: 1, ModTime: mtimeChoices[0], Size: int64(len(data))}, data: data}
		return e
	}
	return &memFS{walkErrAt: -1, wholeReads: true, entries: []*memEntry{
		mk("d", clsDir, nil),
		mk("d/f", clsFile, v.Bytes("f", 1)),
		mk("e", clsFile, v.Bytes("e", 2)),
	}}
}

func destEqualsView(dest string, view *memFS) bool {
	snap := m.Snapshot(dest)
	if len(snap) != len(view.entries) {
		return false
	}
	ok := true
	for _, e := range view.entries {
		found := false
		for i := range snap {
			if snap[i].Path == e.stat.Path {
				found = true
				if os.FileMode(e.stat.Mode).IsDir() {
					ok = v.And(ok, snap[i].Kind == m.KDir)
				} else {
					ok = v.And(ok, snap[i].Kind == m.KFile, string(snap[i].Data) == string(e.data), snap[i].Mtime == e.stat.ModTime, snap[i].Uid == e.stat.Uid)
				}
			}
		}
		ok = v.And(ok, found)
	}
	return ok
}

// VH_C04_faults: one fault of a solver-chosen kind at a solver-chosen operation index during a
// transfer (real Send over a synthetic view, real Receive on the model file system). After the
// transport is torn down both calls return and every goroutine they started ends; Receive reports
// success only if the destination equals the source view, Send only if the receiver's FIN reached
// it; and a later fault-free transfer into whatever was left behind converges.
func VH_C04_faults() {
	m.Reset()
	dest := m.Root("dest")
	if v.Bool("dirty") {
		m.MkFile(dest+"/e", []byte("old"), 0600, 7, 7, 5)
		m.MkFile(dest+"/zz", []byte("z"), 0600, 7, 7, 5)
	}
	kind := v.Choose("fault", faultKinds)
	k := 1 + v.Choose("k", v.Param("K", 8))
	view := c04View()
	sendErr, recvErr, fin := runTransfer(view, dest, kind, k)
	v.Observe("send-ok", sendErr == nil)
	v.Observe("recv-ok", recvErr == nil)
	v.Assert(v.Goroutines() == 0, "after teardown every goroutine started by Send and Receive has ended")
	if recvErr == nil {
		v.Cover("receive-success")
		if kind == faultOpen {
			v.Assert(destEqualsView(dest, view), "Receive returns success only if the destination equals the source view [class: announced source file cannot be opened]")
		} else {
			v.Assert(destEqualsView(dest, view), "Receive returns success only if the destination equals the source view")
		}
	} else {
		v.Cover("receive-failure")
	}
	if sendErr == nil {
		v.Cover("send-success")
		v.Assert(fin, "Send returns success only if the receiver acknowledged completion")
	} else {
		v.Cover("send-failure")
	}
	if kind == faultNone {
		v.Assert(sendErr == nil && recvErr == nil, "a fault-free transfer succeeds")
	}
	// a later fault-free transfer into whatever the aborted run left behind converges
	view2 := c04View()
	for i, e := range view2.entries {
		e.data = view.entries[i].data
	}
	sendErr, recvErr, _ = runTransfer(view2, dest, faultNone, 0)
	v.Assert(sendErr == nil && recvErr == nil, "a fault-free transfer after an aborted one succeeds")
	v.Assert(destEqualsView(dest, view2), "a fault-free transfer after an aborted one converges to the source view")
	v.Assert(v.Goroutines() == 0, "no goroutine is left behind")
}
