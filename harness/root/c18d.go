package fsutil

import (
	"context"
	"io"
	gofs "io/fs"

	"github.com/tonistiigi/fsutil/zz_verif/m"
	"github.com/tonistiigi/fsutil/zz_verif/v"
)

var vh_xferLinkTargets = []string{"srv1/conf", "srv2", "/srv1", "f", "srv1/../f"}
var vh_xferRequests = []string{"srv*/conf", "srv1/conf", "L", "s*", "srv2/c*", "*/other", "L/conf", "f", "s*/c*", "L/c*", "srv3/c*", "srv3/conf", "L/l*", "srv2/l*", "srv3/l*", "*/lnk"}

// starMatch: does a one-component pattern (only '*' is special) match the name?
func vh_starMatch(pat, name string) bool {
	if pat == "" {
		return name == ""
	}
	if pat[0] == '*' {
		for i := 0; i <= len(name); i++ {
			if vh_starMatch(pat[1:], name[i:]) {
				return true
			}
		}
		return false
	}
	return name != "" && pat[0] == name[0] && vh_starMatch(pat[1:], name[1:])
}

func vh_hasStar(s string) bool {
	for i := 0; i < len(s); i++ {
		if s[i] == '*' {
			return true
		}
	}
	return false
}

// expandRequest: the concrete paths a request with wildcards stands for. Components are matched one
// after the other against the entries of the directory the path so far leads to (links in earlier
// components followed as a chroot-ed kernel would), so "L/l*" with L -> srv2 stands for "L/lnk".
// A request without wildcards stands for itself.
func vh_expandRequest(snap []m.Entry, req string) []string {
	if !vh_hasStar(req) {
		return []string{req}
	}
	cands := []string{""}
	for _, pc := range vh_splitComps(req) {
		var next []string
		for _, c := range cands {
			dir := ""
			if c != "" {
				_, final, exists, gaveUp := vh_physResolve(snap, c)
				if !exists || gaveUp {
					continue
				}
				dir = final
				if k, _, ok := vh_snapKind(snap, dir); dir != "" && (!ok || k != m.KDir) {
					continue
				}
			}
			for i := range snap {
				if vh_specParent(snap[i].Path) != dir {
					continue
				}
				name := snap[i].Path
				if dir != "" {
					name = name[len(dir)+1:]
				}
				if vh_starMatch(pc, name) {
					if c == "" {
						next = append(next, name)
					} else {
						next = append(next, c+"/"+name)
					}
				}
			}
		}
		cands = next
	}
	return cands
}

// VH_C18_transfer: the consequence clause. A filtered view built with follow-paths (the resolved
// paths become include patterns next to the caller's own) is walked the way a transfer walks it;
// in the tree made of exactly the reported entries every requested path - wildcards in the last or
// in a middle component expanded against the source - resolves to the same location as in the
// source, and a regular file reached can be opened through the view with its bytes.
func VH_C18_transfer() {
	nreq := v.Param("NREQ", 1)
	m.Reset()
	root := m.Root("src")
	m.MkDir(root+"/srv1", 0755, 0, 0, 5)
	m.MkFile(root+"/srv1/conf", []byte("c1"), 0644, 0, 0, 5)
	m.MkFile(root+"/srv1/other", []byte("o1"), 0644, 0, 0, 5)
	m.MkDir(root+"/srv2", 0755, 0, 0, 5)
	m.MkFile(root+"/srv2/conf", []byte("c2"), 0644, 0, 0, 5)
	m.MkSymlink(root+"/srv1/lnk", "../z", 0, 0, 5) // links inside the directories, for wildcards to match
	m.MkSymlink(root+"/srv2/lnk", "../f", 0, 0, 5)
	m.MkFile(root+"/f", []byte("f"), 0644, 0, 0, 5)
	m.MkFile(root+"/z", []byte("z"), 0644, 0, 0, 5)
	m.MkSymlink(root+"/L", vh_xferLinkTargets[v.Choose("target-L", len(vh_xferLinkTargets))], 0, 0, 5)
	if v.Bool("srv3-link") {
		m.MkSymlink(root+"/srv3", "srv1", 0, 0, 5) // a directory symlink the wildcards also match
	}
	snap := m.Snapshot(root)
	fs, err := NewFS(root)
	if err != nil {
		return
	}
	reqs := make([]string, nreq)
	for i := range reqs {
		reqs[i] = vh_xferRequests[v.Choose("req", len(vh_xferRequests))]
	}
	opt := &FilterOpt{FollowPaths: reqs}
	if v.Bool("user-include") {
		opt.IncludePatterns = []string{"z"}
	}
	ffs, err := NewFilterFS(fs, opt)
	v.Assert(err == nil, "a filtered view with follow-paths can be built")
	if err != nil {
		return
	}
	reported := map[string]bool{}
	err = ffs.Walk(context.Background(), "", func(p string, d gofs.DirEntry, err error) error {
		if err != nil {
			return err
		}
		reported[p] = true
		return nil
	})
	v.Assert(err == nil, "the walk of the filtered view succeeds")
	var sub []m.Entry
	for i := range snap {
		if reported[snap[i].Path] {
			sub = append(sub, snap[i])
		}
	}
	for i := range sub {
		par := vh_specParent(sub[i].Path)
		v.Assert(par == "" || reported[par], "the reported entries are parent closed")
	}
	for _, rq := range reqs {
		for _, q := range vh_expandRequest(snap, rq) {
			links, final, exists, gaveUp := vh_physResolve(snap, q)
			if gaveUp || !exists || final == "" {
				v.Cover("unresolvable")
				continue
			}
			// a traversed link target with ".." after a non-".." component: FollowLinks cleans it
			// lexically, so what the target passes through is not part of the result
			lexDots := false
			for _, l := range links {
				_, tgt, _ := vh_snapKind(snap, l)
				past := false
				for _, c := range vh_splitComps(tgt) {
					if c == ".." && past {
						lexDots = true
					}
					if c != ".." {
						past = true
					}
				}
			}
			v.Cover("resolvable")
			if vh_hasStar(rq) {
				v.Cover("wildcard")
			}
			_, final2, exists2, _ := vh_physResolve(sub, q)
			if lexDots {
				v.Cover("lexical-dotdot")
				v.Assert(exists2 && final2 == final, "in the transferred tree a requested path resolves to the same entry as in the source [class: link target with '..' after another component, cleaned lexically]")
				continue
			}
			v.Assert(exists2 && final2 == final, "in the transferred tree a requested path resolves to the same entry as in the source")
			kind, _, _ := vh_snapKind(snap, final)
			if kind == m.KFile {
				rc, err := ffs.Open(final)
				v.Assert(err == nil, "the file a requested path leads to can be opened through the view")
				if err == nil {
					b, _ := io.ReadAll(rc)
					var want []byte
					for i := range snap {
						if snap[i].Path == final {
							want = snap[i].Data
						}
					}
					v.Assert(string(b) == string(want), "and yields the bytes of the source")
				}
			}
		}
	}
	v.Cover("done")
}
