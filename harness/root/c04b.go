package fsutil

import (
	"context"
	"hash"
	"os"
	"time"

	"github.com/tonistiigi/fsutil/types"
	"github.com/tonistiigi/fsutil/zz_verif/m"
	"github.com/tonistiigi/fsutil/zz_verif/v"
)

func vh_nameOf(i int) string {
	const digits = "0123456789"
	return "n" + string([]byte{digits[i/100%10], digits[i/10%10], digits[i%10]})
}

// VH_C04_backlog: large fan-out. The source announces N (> 2 x 128) directories, so the
// receiver's internal queues (128 slots each) are full when a change callback fails at a
// solver-chosen call. After the transport is torn down both calls must still return and every
// goroutine must end.
func VH_C04_backlog() {
	n := v.Param("N", 300)
	m.Reset()
	dest := m.Root("dest")
	view := &vh_memFS{walkErrAt: -1, wholeReads: true}
	for i := 0; i < n; i++ {
		view.entries = append(view.entries, &vh_memEntry{stat: &types.Stat{Path: vh_nameOf(i), Mode: vh_modeFor(vh_clsDir, 0755), Uid: 1, Gid: 1, ModTime: vh_mtimes()[0]}})
	}
	failAt := 1 + v.Choose("fail-at", 2)
	useHasher := v.Bool("hasher-fails")
	ctx, cancel := context.WithCancel(context.Background())
	defer cancel()
	s1, s2 := vh_newStreamPair(ctx, 1024)
	calls := 0
	waitBacklog := func() {
		// natively give the packet reader time to fill the queues (the interpreter's schedule does
		// that by construction)
		if !v.Symbolic() {
			for i := 0; i < 400 && s2.recvs < 260; i++ {
				time.Sleep(5 * time.Millisecond)
			}
		}
	}
	opt := ReceiveOpt{
		ContentHasher: func(st *types.Stat) (hash.Hash, error) {
			if useHasher {
				calls++
				if calls == failAt {
					waitBacklog()
					return nil, vh_errInjected
				}
			}
			return &vh_recHash{}, nil
		},
		NotifyHashed: func(ChangeKind, string, os.FileInfo, error) error {
			if !useHasher {
				calls++
				if calls == failAt {
					waitBacklog()
					return vh_errInjected
				}
			}
			return nil
		},
	}
	var sendErr, recvErr error
	sendDone, recvDone := make(chan struct{}), make(chan struct{})
	go func() {
		sendErr = Send(ctx, s1, view, nil)
		close(sendDone)
	}()
	go func() {
		recvErr = Receive(ctx, s2, dest, opt)
		close(recvDone)
	}()
	v.Yield()
	if !v.Symbolic() {
		time.Sleep(300 * time.Millisecond)
	}
	cancel()
	s1.Break()
	<-sendDone
	<-recvDone
	v.Assert(recvErr != nil, "a failing callback makes Receive fail")
	v.Assert(v.Goroutines() == 0, "after teardown every goroutine started by Send and Receive has ended")
	_ = sendErr
	v.Cover("done")
}
