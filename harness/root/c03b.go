package fsutil

import (
	"context"
	"os"

	"github.com/tonistiigi/fsutil/types"
	"github.com/tonistiigi/fsutil/zz_verif/m"
	"github.com/tonistiigi/fsutil/zz_verif/v"
)

var vh_hostilePaths = []string{"a", "a/b", "b", "..", ".", "", "../out/x", "/abs", "a/../..", "ln/x", "lf", "a/./b", "b/"}
var vh_hostileLinks = []string{"", "a", "../out/secret", "/out/secret", "nosuch", "lf"}

// reduced candidate lists (parameter R=1) for longer scripts
var vh_hostilePathsR = []string{"a", "a/b", "..", "ln/x", "lf"}
var vh_hostileLinksR = []string{"", "a", "../out/secret"}

func vh_sentinelUnchanged(before, after []m.Entry) bool {
	if len(before) != len(after) {
		return false
	}
	ok := true
	for i := range before {
		b, a := before[i], after[i]
		ok = v.And(ok, a.Path == b.Path, a.Kind == b.Kind, a.Perm == b.Perm, a.Uid == b.Uid, a.Gid == b.Gid, a.Mtime == b.Mtime,
			string(a.Data) == string(b.Data), a.Target == b.Target, a.Nlink == b.Nlink, len(a.XKeys) == len(b.XKeys))
		for j := range b.XKeys {
			if j < len(a.XKeys) {
				ok = v.And(ok, a.XKeys[j] == b.XKeys[j], string(a.XVals[j]) == string(b.XVals[j]))
			}
		}
	}
	return ok
}

// VH_C03_hostile: a hostile peer sends K packets (STAT with a path and link name from lists of
// well- and ill-formed candidates and a fully symbolic 32-bit mode, or DATA for an arbitrary id)
// to the real Receive, whose destination already contains symlinks pointing outside. Whatever
// happens, nothing outside dest is created, modified, re-owned, re-linked or deleted; and a stream
// that is not ordered / parent-closed / contained, links to an unknown path or carries unrequested
// data makes Receive fail without applying the offending entry.
func VH_C03_hostile() {
	k := v.Param("K", 2)
	m.Reset()
	out := m.Root("out")
	dest := m.Root("dest")
	m.MkFile(out+"/secret", []byte("s"), 0600, 1, 1, 5)
	m.MkDir(out+"/sub", 0700, 1, 1, 5)
	m.MkSymlink(dest+"/ln", "../out", 0, 0, 5)
	m.MkSymlink(dest+"/lf", "../out/secret", 0, 0, 5)
	before := m.Snapshot(out)
	rootBefore := m.SnapshotAll()

	ctx := context.Background()
	rcv, snd := vh_newStreamPair(ctx, 256)
	var recvErr error
	done := make(chan struct{})
	go func() {
		recvErr = Receive(ctx, rcv, dest, ReceiveOpt{})
		close(done)
	}()
	var spec vh_specValidator
	offending := false
	var regular []string
	var sent []string
	// DEEP=n: the hostile packets come after a well-formed chain of n nested directories and name
	// entries below it (depth-dependent bookkeeping of the validators is on the path)
	deep := v.Param("DEEP", 0)
	if dmin := v.Param("DMIN", 0); dmin > 0 && deep >= dmin {
		deep = dmin + v.Choose("depth", deep-dmin+1)
	}
	chain := ""
	for i := 0; i < deep; i++ {
		if i > 0 {
			chain += "/"
		}
		chain += "0"
		spec.accept(chain, true, false)
		regular = append(regular, chain)
		snd.SendMsg(&types.Packet{Type: types.PACKET_STAT, Stat: &types.Stat{Path: chain, Mode: uint32(os.ModeDir) | 0755, Uid: 9, Gid: 9, ModTime: vh_mtimes()[0]}})
	}
	for i := 0; i < k && !offending; i++ {
		if v.Bool("is-data") {
			// content for an id that was not requested (the peer never waits for a REQ)
			// (a payload byte, or the empty terminator)
			snd.SendMsg(&types.Packet{Type: types.PACKET_DATA, ID: v.U32("id"), Data: make([]byte, v.Choose("data-len", 2))})
			offending = true
			v.Cover("unrequested-data")
			break
		}
		hp, hl := vh_hostilePaths, append([]string(nil), vh_hostileLinks...)
		hl[3] = out + "/secret" // the absolute path of the outside file (natively below the scratch directory)
		if v.Param("R", 0) != 0 {
			hp, hl = vh_hostilePathsR, vh_hostileLinksR
		}
		if deep > 0 {
			hp, hl = []string{chain + "/m", chain + "/m/f", chain + "/n"}, []string{"", out + "/sub"}
		}
		p := hp[v.Choose("path", len(hp))]
		link := hl[v.Choose("link", len(hl))]
		mode := uint32(0)
		if deep > 0 {
			// three entry classes (the fully symbolic mode is covered by the shallow obligations)
			mode = []uint32{uint32(os.ModeDir) | 0755, 0644, uint32(os.ModeSymlink) | 0777}[v.Choose("class", 3)]
		} else {
			mode = v.U32("mode")
		}
		st := &types.Stat{Path: p, Mode: mode, Linkname: link, Uid: 9, Gid: 9, ModTime: vh_mtimes()[0]}
		// (a solver choice for single-packet scripts; always present in longer scripts, where the
		// choice would double the script space per packet without adding a behaviour)
		if k > 1 || v.Bool("xattr") {
			// extended attributes on any kind of entry (on a symlink they must not reach its target)
			st.Xattrs = map[string][]byte{"user.h": []byte("1")}
		}
		fm := os.FileMode(mode)
		ok := spec.accept(p, fm.IsDir(), false)
		// an entry the receiver turns into a hard link: not a directory / device / fifo / symlink, with a link name
		isHardlink := !fm.IsDir() && fm&os.ModeDevice == 0 && fm&os.ModeNamedPipe == 0 && fm&os.ModeSymlink == 0 && link != ""
		if ok && isHardlink {
			known := false
			for _, r := range regular {
				if r == link {
					known = true
				}
			}
			if !known {
				ok = false
				v.Cover("link-to-unknown")
			}
		}
		if ok {
			regular = append(regular, p) // "a path sent earlier" (the property's wording): any accepted entry
		}
		if !ok {
			offending = true
		}
		sent = append(sent, p)
		snd.SendMsg(&types.Packet{Type: types.PACKET_STAT, Stat: st})
	}
	// after its offending packet the hostile peer either hangs up or carries on as if nothing had
	// happened (end-of-stats marker, content for whatever is requested)
	closed := false
	if !offending || v.Bool("keeps-serving") {
		snd.SendMsg(&types.Packet{Type: types.PACKET_STAT})
	} else {
		snd.CloseSend()
		closed = true
	}
	// serve requests until the receiver finishes or fails
	for fin := false; !fin; {
		var p types.Packet
		select {
		case <-done:
			fin = true
			continue
		default:
		}
		if err := snd.RecvMsg(&p); err != nil {
			break
		}
		switch p.Type {
		case types.PACKET_REQ:
			if !closed {
				snd.SendMsg(&types.Packet{Type: types.PACKET_DATA, ID: p.ID, Data: []byte{7}})
				snd.SendMsg(&types.Packet{Type: types.PACKET_DATA, ID: p.ID})
			}
		case types.PACKET_FIN:
			if !closed {
				snd.SendMsg(&types.Packet{Type: types.PACKET_FIN})
				snd.CloseSend()
			}
			fin = true
		case types.PACKET_ERR:
			if !closed {
				snd.CloseSend()
			}
			fin = true
		}
	}
	<-done
	v.Observe("failed", recvErr != nil)
	after := m.Snapshot(out)
	v.Assert(vh_sentinelUnchanged(before, after), "nothing outside the destination was created, modified, re-owned, re-linked or deleted")
	rootAfter := m.SnapshotAll()
	nOutsideBefore, nOutsideAfter := 0, 0
	for _, e := range rootBefore {
		if !vh_isUnder(e.Path, "dest") {
			nOutsideBefore++
		}
	}
	for _, e := range rootAfter {
		if !vh_isUnder(e.Path, "dest") {
			nOutsideAfter++
		}
	}
	v.Assert(nOutsideBefore == nOutsideAfter, "no entry appeared or disappeared outside the destination (including its parent)")
	for _, op := range m.Ops() {
		if op.Kind != "read" {
			v.Assert(vh_isUnder(op.Path, dest), "every mutating file-system operation resolves strictly inside the destination")
		}
	}
	if offending {
		v.Cover("offending")
		v.Assert(recvErr != nil, "an ill-formed, unordered, parent-less, unknown-link or unrequested-data stream makes Receive fail")
		if len(sent) > 0 {
			last := sent[len(sent)-1]
			if vh_specWellFormed(last) && last != "ln" && last != "lf" && !vh_isUnder(last, "ln") {
				fresh := true
				for _, q := range sent[:len(sent)-1] {
					if q == last {
						fresh = false
					}
				}
				if fresh {
					v.Assert(!m.Exists(dest+"/"+last), "the offending entry is not applied")
				}
			}
		}
	} else {
		// acceptance of a well-formed stream is not part of C03 (odd mode-bit combinations may be
		// refused); C07 covers the conforming case
		if recvErr == nil {
			v.Cover("legal-accepted")
		}
	}
}

// VH_C03_merge: the rarely used receiver modes. A (possibly honest) sender announces a regular file
// "a" and "b", a hard link to it; the receiver runs in merge mode and/or metadata-only mode with a
// solver-chosen selection, over a destination that already holds, under the announced names,
// symlinks pointing at a file and a directory outside. Whatever the combination, nothing outside
// the destination is created, modified, re-owned, re-moded or deleted.
func VH_C03_merge() {
	m.Reset()
	out := m.Root("out")
	dest := m.Root("dest")
	m.MkFile(out+"/secret", []byte("s"), 0600, 1, 1, 5)
	m.MkDir(out+"/sub", 0700, 1, 1, 5)
	// pre-existing destination entries under the names the sender will announce
	for _, n := range []string{"a", "b"} {
		switch v.Choose("prior-"+n, 4) {
		case 1:
			m.MkSymlink(dest+"/"+n, "../out/secret", 0, 0, 5)
		case 2:
			m.MkSymlink(dest+"/"+n, "../out/sub", 0, 0, 5)
		case 3:
			m.MkFile(dest+"/"+n, []byte("old"), 0600, 7, 7, 5)
		}
	}
	before := m.Snapshot(out)
	sel := map[string]bool{"a": v.Bool("select-a"), "b": v.Bool("select-b")}
	opt := ReceiveOpt{Merge: v.Bool("merge")}
	if v.Bool("metadata-only") {
		opt.MetadataOnly = func(p string, st *types.Stat) bool { return sel[p] }
		v.Cover("metadata-only")
	}
	ctx := context.Background()
	rcv, snd := vh_newStreamPair(ctx, 64)
	var recvErr error
	done := make(chan struct{})
	go func() {
		recvErr = Receive(ctx, rcv, dest, opt)
		close(done)
	}()
	mode := uint32(0644) | (v.U32("special") & uint32(os.ModeSetuid|os.ModeSetgid|os.ModeSticky))
	snd.SendMsg(&types.Packet{Type: types.PACKET_STAT, Stat: &types.Stat{Path: "a", Mode: mode, Uid: 9, Gid: 9, Size: 1, ModTime: vh_mtimes()[0]}})
	snd.SendMsg(&types.Packet{Type: types.PACKET_STAT, Stat: &types.Stat{Path: "b", Mode: mode, Uid: 9, Gid: 9, Size: 1, ModTime: vh_mtimes()[0], Linkname: "a"}})
	snd.SendMsg(&types.Packet{Type: types.PACKET_STAT})
	for fin := false; !fin; {
		var p types.Packet
		select {
		case <-done:
			fin = true
			continue
		default:
		}
		if err := snd.RecvMsg(&p); err != nil {
			break
		}
		switch p.Type {
		case types.PACKET_REQ:
			snd.SendMsg(&types.Packet{Type: types.PACKET_DATA, ID: p.ID, Data: []byte{7}})
			snd.SendMsg(&types.Packet{Type: types.PACKET_DATA, ID: p.ID})
		case types.PACKET_FIN:
			snd.SendMsg(&types.Packet{Type: types.PACKET_FIN})
			snd.CloseSend()
			fin = true
		case types.PACKET_ERR:
			snd.CloseSend()
			fin = true
		}
	}
	<-done
	v.Observe("failed", recvErr != nil)
	v.Assert(vh_sentinelUnchanged(before, m.Snapshot(out)), "nothing outside the destination was created, modified, re-owned, re-moded or deleted (merge / metadata-only modes)")
	for _, op := range m.Ops() {
		if op.Kind != "read" {
			v.Assert(vh_isUnder(op.Path, dest), "every mutating file-system operation resolves strictly inside the destination (merge / metadata-only modes)")
		}
	}
	v.Cover("done")
}
