package fsutil

import (
	"os"

	"github.com/tonistiigi/fsutil/types"
	"github.com/tonistiigi/fsutil/zz_verif/v"
)

func vh_symStat(tag string, nlink int) *types.Stat {
	return &types.Stat{
		Mode:     v.U32(tag + ".mode"),
		Uid:      v.U32(tag + ".uid"),
		Gid:      v.U32(tag + ".gid"),
		Size:     v.I64(tag + ".size"),
		ModTime:  v.I64(tag + ".mtime"),
		Devmajor: v.I64(tag + ".major"),
		Devminor: v.I64(tag + ".minor"),
		Linkname: v.String(tag+".link", nlink),
	}
}

// specIdentity is the identity of C02: type+mode, uid/gid, link target, device numbers and, for
// non-directories, size and mtime.
func vh_specIdentity(a, b *types.Stat) bool {
	meta := v.And(a.Mode == b.Mode, a.Uid == b.Uid, a.Gid == b.Gid, a.Linkname == b.Linkname, a.Devmajor == b.Devmajor, a.Devminor == b.Devminor)
	isDir := os.FileMode(a.Mode)&os.ModeDir != 0
	return v.And(meta, v.Or(isDir, v.And(a.Size == b.Size, a.ModTime == b.ModTime)))
}

// VH_C02_samefile: for all pairs of stats (every field full width), sameFile under DiffMetadata
// holds exactly when the identity of C02 is equal; under DiffNone it never holds.
func VH_C02_samefile() {
	la, lb := v.Choose("la", 3), v.Choose("lb", 3)
	a, b := vh_symStat("a", la), vh_symStat("b", lb)
	f1, f2 := &currentPath{path: "x", stat: a}, &currentPath{path: "x", stat: b}
	same, err := sameFile(f1, f2, DiffMetadata)
	v.Observe("same", same)
	v.Assert(err == nil, "sameFile(DiffMetadata) does not fail")
	want := vh_specIdentity(a, b)
	if want {
		v.Cover("identical")
	} else {
		v.Cover("different")
	}
	v.Assert(same == want, "sameFile(DiffMetadata) equals the identity relation of C02")
	none, _ := sameFile(f1, f2, DiffNone)
	v.Assert(!none, "sameFile(DiffNone) is never true")
}
