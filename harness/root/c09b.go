package fsutil

import (
	"context"
	gofs "io/fs"
	"os"

	"github.com/tonistiigi/fsutil/types"
	"github.com/tonistiigi/fsutil/zz_verif/m"
	"github.com/tonistiigi/fsutil/zz_verif/v"
)

func vh_entryGoMode(e *m.Entry) uint32 {
	p := e.Perm
	mode := p & 0777
	mode |= ((p >> 11) & 1) << 23
	mode |= ((p >> 10) & 1) << 22
	mode |= ((p >> 9) & 1) << 20
	switch e.Kind {
	case m.KDir:
		mode |= uint32(os.ModeDir)
	case m.KSymlink:
		mode |= uint32(os.ModeSymlink)
	case m.KFifo:
		mode |= uint32(os.ModeNamedPipe)
	case m.KChar:
		mode |= uint32(os.ModeDevice | os.ModeCharDevice)
	case m.KBlock:
		mode |= uint32(os.ModeDevice)
	}
	return mode
}

// VH_C09_walk: walking an on-disk tree (model file system) whose names sort differently bytewise
// and path-wise ("a", "a/x", "a-b", "a.c", "b"), with solver-chosen entry types and hard-link
// grouping: every entry below the root is reported exactly once (never the root), in strictly
// ascending protocol order, with a stat equal to lstat/readlink of the entry; within an inode
// group the first entry in walk order is the file and every later one a link naming the first.
func VH_C09_walk() {
	m.Reset()
	root := m.Root("src")
	perm := func() uint32 { return v.U32("perm") & 07777 }
	m.MkDir(root+"/a", perm(), v.U32("uid"), v.U32("gid"), vh_chooseMtime("mtime"))
	var files []string
	mkfile := func(p string) {
		// a regular file: either its own inode or a further name of an earlier regular file
		if len(files) > 0 {
			if g := v.Choose("group", len(files)+1); g > 0 {
				m.MkLink(root+"/"+files[g-1], root+"/"+p)
				files = append(files, p)
				v.Cover("hardlink")
				return
			}
		}
		m.MkFile(root+"/"+p, v.Bytes("data", v.Choose("size", 2)), perm(), v.U32("uid"), v.U32("gid"), vh_chooseMtime("mtime"))
		files = append(files, p)
	}
	mkfile("a/x")
	switch v.Choose("class-a-b", 3) {
	case 0:
		mkfile("a-b")
	case 1:
		m.MkSymlink(root+"/a-b", "a/x", v.U32("uid"), v.U32("gid"), vh_chooseMtime("mtime"))
	case 2:
		m.MkNode(root+"/a-b", m.KChar, perm(), 0x0501, v.U32("uid"), v.U32("gid"), vh_chooseMtime("mtime"))
	}
	mkfile("a.c")
	if v.Bool("has-b") {
		if v.Bool("b-links-symlink") {
			// a second name for the symlink a-b itself (link(2) does not follow)
			_, _, isLink := vh_snapKind(m.Snapshot(root), "a-b")
			k, _, _ := vh_snapKind(m.Snapshot(root), "a-b")
			v.Assume(isLink && k == m.KSymlink)
			m.MkLink(root+"/a-b", root+"/b")
			v.Cover("hardlinked-symlink")
		} else {
			mkfile("b")
		}
	}
	m.SetMtime(root+"/a", vh_chooseMtime("mtime-a"))
	snap := m.Snapshot(root)

	fs, err := NewFS(root)
	if err != nil {
		v.Assert(false, "NewFS succeeds")
		return
	}
	var got []*types.Stat
	err = fs.Walk(context.Background(), "", func(p string, d gofs.DirEntry, err error) error {
		if err != nil {
			return err
		}
		fi, err := d.Info()
		if err != nil {
			return err
		}
		st := fi.Sys().(*types.Stat)
		v.Assert(st.Path == p, "the stat carries the walked path")
		got = append(got, st)
		return nil
	})
	v.Assert(err == nil, "walk succeeds")
	v.Observe("n", len(got))
	v.Assert(len(got) == len(snap), "every entry below the root is reported exactly once, the root never")
	firstOf := map[uint64]string{}
	for i, st := range got {
		if i > 0 {
			v.Assert(vh_specCmp(got[i-1].Path, st.Path) < 0, "entries are reported in strictly ascending protocol order")
		}
		var e *m.Entry
		for j := range snap {
			if snap[j].Path == st.Path {
				e = &snap[j]
			}
		}
		if e == nil {
			v.Assert(false, "every reported path exists")
			continue
		}
		v.Assert(st.Mode == vh_entryGoMode(e), "mode (type, permission, special bits) matches lstat")
		v.Assert(st.Uid == e.Uid && st.Gid == e.Gid, "uid/gid match lstat")
		v.Assert(st.ModTime == e.Mtime, "mtime matches lstat")
		switch e.Kind {
		case m.KSymlink:
			v.Assert(st.Linkname == e.Target, "symlink target matches readlink")
		case m.KChar, m.KBlock:
			v.Assert(uint64(st.Devmajor) == (e.Rdev>>8)&0xfff && uint64(st.Devminor) == e.Rdev&0xff, "device numbers match")
		case m.KFile:
			if first, ok := firstOf[e.Ino]; ok {
				// (mkstat overwrites the Size 0 that setUnixOpt sets for links; the property does not
				// speak about the size of a link entry, so it is not asserted)
				v.Assert(st.Linkname == first, "a later member of an inode group is a link naming the first member")
			} else {
				firstOf[e.Ino] = st.Path
				v.Assert(st.Linkname == "" && st.Size == int64(len(e.Data)), "the first member of an inode group is reported as the file")
			}
		}
	}
	// a view can be walked any number of times, from the root or from a sub-target: every walk
	// reports what a first walk reports (link canonicalisation is per walk)
	target := []string{"", "a"}[v.Choose("second-walk-target", 2)]
	var again []*types.Stat
	err = fs.Walk(context.Background(), target, func(p string, d gofs.DirEntry, err error) error {
		if err != nil {
			return err
		}
		fi, err := d.Info()
		if err != nil {
			return err
		}
		again = append(again, fi.Sys().(*types.Stat))
		return nil
	})
	v.Assert(err == nil, "a second walk of the same view succeeds")
	if target == "" {
		v.Assert(len(again) == len(got), "a second walk of the same view reports the same entries")
		for i := range again {
			if i < len(got) {
				v.Assert(again[i].Path == got[i].Path && again[i].Linkname == got[i].Linkname && again[i].Mode == got[i].Mode, "a second walk of the same view reports the same stats (file / link roles included)")
			}
		}
	} else {
		v.Cover("sub-target")
		v.Assert(len(again) == 2 && again[0].Path == "a" && again[1].Path == "a/x", "a sub-target walk reports the target and its contents")
		if len(again) == 2 {
			v.Assert(again[1].Linkname == "", "in a sub-target walk the first member of an inode group inside the target is reported as the file")
		}
	}
	v.Cover("done")
}
