package fsutil

import (
	"context"
	"os"

	"github.com/tonistiigi/fsutil/types"
	"github.com/tonistiigi/fsutil/zz_verif/v"
)

// VH_C06_eager: the real Send against a reference receiver that may request a regular file the
// moment its STAT arrives (a solver-chosen subset), over a transport whose SendMsg returns only
// after the peer had time to react (so requests race the STAT stream): every announced regular id
// is answered with its bytes and one terminator; FIN is echoed; Send succeeds.
func VH_C06_eager() {
	maxb := v.Param("MAXB", 1)
	view := vh_symView(maxb)
	ctx := context.Background()
	snd, rcv := vh_newStreamPair(ctx, 256)
	snd.latency = true
	var sendErr error
	done := make(chan struct{})
	go func() {
		sendErr = Send(ctx, snd, view, nil)
		snd.CloseSend()
		close(done)
	}()
	var stats []*types.Stat
	outstanding := map[uint32]bool{}
	got := map[uint32][]byte{}
	requested := map[uint32]bool{}
	statsDone, finSent, finEchoed := false, false, false
	for !finEchoed {
		var p types.Packet
		if err := rcv.RecvMsg(&p); err != nil {
			v.Assert(false, "stream ended before the FIN echo although every request was legal")
			return
		}
		switch p.Type {
		case types.PACKET_STAT:
			if p.Stat == nil {
				statsDone = true
				// request everything regular that was not requested eagerly
				for i, st := range stats {
					if os.FileMode(st.Mode)&os.ModeType == 0 && !requested[uint32(i)] && v.Bool("late") {
						requested[uint32(i)], outstanding[uint32(i)] = true, true
						rcv.SendMsg(&types.Packet{Type: types.PACKET_REQ, ID: uint32(i)})
					}
				}
				break
			}
			v.Assert(!statsDone, "no STAT after the end-of-stats marker")
			idx := uint32(len(stats))
			stats = append(stats, p.Stat)
			if os.FileMode(p.Stat.Mode)&os.ModeType == 0 && v.Bool("eager") {
				v.Cover("eager-request")
				requested[idx], outstanding[idx] = true, true
				rcv.SendMsg(&types.Packet{Type: types.PACKET_REQ, ID: idx})
			}
		case types.PACKET_DATA:
			v.Assert(outstanding[p.ID], "DATA only for ids with a pending request")
			if len(p.Data) == 0 {
				delete(outstanding, p.ID)
				if int(p.ID) < len(view.entries) {
					v.Assert(string(got[p.ID]) == string(view.entries[p.ID].data), "DATA payloads concatenate to the file bytes, ended by one empty DATA")
				}
			} else {
				got[p.ID] = append(got[p.ID], p.Data...)
			}
		case types.PACKET_FIN:
			v.Assert(finSent, "FIN is only echoed")
			finEchoed = true
		case types.PACKET_ERR:
			v.Assert(false, "the sender reported an error although every request was legal")
			return
		}
		if statsDone && len(outstanding) == 0 && !finSent {
			finSent = true
			rcv.SendMsg(&types.Packet{Type: types.PACKET_FIN})
		}
	}
	<-done
	v.Assert(sendErr == nil, "Send returns success after the FIN handshake")
	v.Assert(len(stats) == len(view.entries), "one STAT per entry of the view")
	v.Assert(!snd.overlap, "the sender never has two SendMsg (or two RecvMsg) calls in flight on the stream (under this schedule)")
	v.Cover("fin")
}

// VH_C06_flood: more outstanding requests than the sender's pipeline and workers hold (N > 132),
// issued by an eager receiver the moment each STAT arrives, while the listing is still going on and
// every source read is held back until the listing is complete (a slow disk): the sender neither
// stalls its listing nor loses a request; every file is delivered and the FIN handshake completes.
func VH_C06_flood() {
	n := int(v.Param("N", 140))
	name := func(i int) string {
		return "f" + string([]byte{byte('0' + i/100), byte('0' + (i/10)%10), byte('0' + i%10)})
	}
	view := &vh_memFS{walkErrAt: -1, wholeReads: true, readGate: make(chan struct{})}
	for i := 0; i < n; i++ {
		view.entries = append(view.entries, &vh_memEntry{stat: &types.Stat{Path: name(i), Mode: 0644, Size: 1}, data: []byte{byte(i)}})
	}
	ctx := context.Background()
	// few STATs in flight towards the receiver, ample room for requests towards the sender
	snd, rcv := vh_newStreamPair2(ctx, 2, 512)
	var sendErr error
	done := make(chan struct{})
	go func() {
		sendErr = Send(ctx, snd, view, nil)
		snd.CloseSend()
		close(done)
	}()
	got := map[uint32][]byte{}
	ended := map[uint32]bool{}
	stats, nEnded, sawEnd := 0, 0, false
	for !sawEnd || nEnded < n {
		var p types.Packet
		if err := rcv.RecvMsg(&p); err != nil {
			v.Assert(false, "stream ended before every file was delivered")
			return
		}
		switch p.Type {
		case types.PACKET_STAT:
			if p.Stat == nil {
				sawEnd = true
				continue
			}
			id := uint32(stats)
			stats++
			if err := rcv.SendMsg(&types.Packet{Type: types.PACKET_REQ, ID: id}); err != nil {
				return
			}
		case types.PACKET_DATA:
			if len(p.Data) == 0 {
				v.Assert(!ended[p.ID], "one terminator per id")
				ended[p.ID] = true
				nEnded++
			} else {
				got[p.ID] = append(got[p.ID], p.Data...)
			}
		default:
			v.Assert(false, "only STAT and DATA before FIN")
			return
		}
	}
	v.Assert(stats == n, "every entry is announced")
	for i := 0; i < n; i++ {
		v.Assert(len(got[uint32(i)]) == 1 && got[uint32(i)][0] == byte(i), "every requested file is delivered with its bytes")
	}
	if err := rcv.SendMsg(&types.Packet{Type: types.PACKET_FIN}); err != nil {
		return
	}
	var p types.Packet
	err := rcv.RecvMsg(&p)
	v.Assert(err == nil && p.Type == types.PACKET_FIN, "FIN is echoed")
	<-done
	v.Assert(sendErr == nil, "Send returns success after the FIN handshake")
	v.Cover("done")
}
