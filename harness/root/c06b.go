package fsutil

import (
	"context"
	"os"

	"github.com/tonistiigi/fsutil/types"
	"github.com/tonistiigi/fsutil/zz_verif/v"
)

// VH_C06_eager: the real Send against a reference receiver that may request a regular file the
// moment its STAT arrives (a solver-chosen subset), over a transport whose SendMsg returns only
// after the peer had time to react (so requests race the STAT stream): every announced regular id
// is answered with its bytes and one terminator; FIN is echoed; Send succeeds.
func VH_C06_eager() {
	maxb := v.Param("MAXB", 1)
	view := vh_symView(maxb)
	ctx := context.Background()
	snd, rcv := vh_newStreamPair(ctx, 256)
	snd.latency = true
	var sendErr error
	done := make(chan struct{})
	go func() {
		sendErr = Send(ctx, snd, view, nil)
		snd.CloseSend()
		close(done)
	}()
	var stats []*types.Stat
	outstanding := map[uint32]bool{}
	got := map[uint32][]byte{}
	requested := map[uint32]bool{}
	statsDone, finSent, finEchoed := false, false, false
	for !finEchoed {
		var p types.Packet
		if err := rcv.RecvMsg(&p); err != nil {
			v.Assert(false, "stream ended before the FIN echo although every request was legal")
			return
		}
		switch p.Type {
		case types.PACKET_STAT:
			if p.Stat == nil {
				statsDone = true
				// request everything regular that was not requested eagerly
				for i, st := range stats {
					if os.FileMode(st.Mode)&os.ModeType == 0 && !requested[uint32(i)] && v.Bool("late") {
						requested[uint32(i)], outstanding[uint32(i)] = true, true
						rcv.SendMsg(&types.Packet{Type: types.PACKET_REQ, ID: uint32(i)})
					}
				}
				break
			}
			v.Assert(!statsDone, "no STAT after the end-of-stats marker")
			idx := uint32(len(stats))
			stats = append(stats, p.Stat)
			if os.FileMode(p.Stat.Mode)&os.ModeType == 0 && v.Bool("eager") {
				v.Cover("eager-request")
				requested[idx], outstanding[idx] = true, true
				rcv.SendMsg(&types.Packet{Type: types.PACKET_REQ, ID: idx})
			}
		case types.PACKET_DATA:
			v.Assert(outstanding[p.ID], "DATA only for ids with a pending request")
			if len(p.Data) == 0 {
				delete(outstanding, p.ID)
				if int(p.ID) < len(view.entries) {
					v.Assert(string(got[p.ID]) == string(view.entries[p.ID].data), "DATA payloads concatenate to the file bytes, ended by one empty DATA")
				}
			} else {
				got[p.ID] = append(got[p.ID], p.Data...)
			}
		case types.PACKET_FIN:
			v.Assert(finSent, "FIN is only echoed")
			finEchoed = true
		case types.PACKET_ERR:
			v.Assert(false, "the sender reported an error although every request was legal")
			return
		}
		if statsDone && len(outstanding) == 0 && !finSent {
			finSent = true
			rcv.SendMsg(&types.Packet{Type: types.PACKET_FIN})
		}
	}
	<-done
	v.Assert(sendErr == nil, "Send returns success after the FIN handshake")
	v.Assert(len(stats) == len(view.entries), "one STAT per entry of the view")
	v.Assert(!snd.overlap, "the sender never has two SendMsg (or two RecvMsg) calls in flight on the stream (under this schedule)")
	v.Cover("fin")
}
