package fsutil

import (
	"github.com/tonistiigi/fsutil/zz_verif/v"
)

const vh_allocMax = 1 << 31

// VH_C19_alloc_step: one alloc(n) from an arbitrary valid buffer state (K chunks with fully
// symbolic len/cap, request n in [0, 2^31)): the result has length n, overlaps no byte handed out
// earlier, and the byte sequence WriteTo would emit is the old one followed by exactly that region.
func VH_C19_alloc_step() {
	k := v.Param("K", 2)
	var b buffer
	old := make([][]byte, k)
	for i := 0; i < k; i++ {
		l, c := v.Int("len"), v.Int("cap")
		v.Assume(0 <= l && l <= c && c > 0 && c < vh_allocMax)
		if i == k-1 {
			// representation invariant of the chunk allocations go into: a standard chunk, or a full one
			v.Assume(c == chunkSize || l == c)
		}
		ch := make([]byte, l, c)
		b.chunks = append(b.chunks, ch)
		old[i] = ch
	}
	n := v.Int("n")
	v.Assume(0 <= n && n < vh_allocMax)
	r := b.alloc(n)
	v.Observe("len_r", len(r))
	v.Assert(len(r) == n, "alloc(n) returns a slice of length n")
	for i := 0; i < k; i++ {
		v.Assert(!v.Overlaps(r, old[i]), "alloc result overlaps no region handed out earlier")
	}
	k2 := len(b.chunks)
	v.Assert(k2 == k || k2 == k+1, "alloc appends at most one chunk")
	if k2 == k {
		v.Cover("extended")
		v.Assert(k > 0, "extension needs an existing chunk")
		for i := 0; i < k-1; i++ {
			v.Assert(len(b.chunks[i]) == len(old[i]) && v.SameStart(b.chunks[i], old[i]), "earlier chunks unchanged")
		}
		last := b.chunks[k-1]
		v.Assert(v.SameStart(last, old[k-1]) && len(last) == len(old[k-1])+n, "last chunk grows by exactly n")
		v.Assert(v.Follows(old[k-1], r), "result is the tail of the extended chunk")
	} else {
		v.Cover("appended")
		for i := 0; i < k; i++ {
			v.Assert(len(b.chunks[i]) == len(old[i]) && v.SameStart(b.chunks[i], old[i]), "earlier chunks unchanged")
		}
		nw := b.chunks[k]
		v.Assert(len(nw) == n && v.SameStart(nw, r), "the appended chunk is exactly the result")
	}
	lastNew := b.chunks[k2-1]
	v.Assert(len(lastNew) <= cap(lastNew) && (cap(lastNew) == chunkSize || len(lastNew) == cap(lastNew)), "representation invariant preserved")
}

// VH_C19_alloc_seq: K allocations from the empty buffer with symbolic sizes: regions are pairwise
// disjoint and the chunk lengths add up to the sum of the requests.
func VH_C19_alloc_seq() {
	k := v.Param("K", 3)
	var b buffer
	rs := make([][]byte, k)
	sum := 0
	for i := 0; i < k; i++ {
		n := v.Int("n")
		v.Assume(0 <= n && n < vh_allocMax)
		rs[i] = b.alloc(n)
		v.Assert(len(rs[i]) == n, "alloc(n) returns a slice of length n")
		sum += n
	}
	for i := 0; i < k; i++ {
		for j := i + 1; j < k; j++ {
			v.Assert(!v.Overlaps(rs[i], rs[j]), "allocated regions are pairwise disjoint")
		}
	}
	total := 0
	for _, c := range b.chunks {
		total += len(c)
	}
	v.Observe("chunks", len(b.chunks))
	v.Assert(total == sum, "chunk lengths add up to the sum of the requests")
	v.Cover("done")
}
