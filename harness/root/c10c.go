package fsutil

import (
	"context"
	gofs "io/fs"

	"github.com/tonistiigi/fsutil/types"
	"github.com/tonistiigi/fsutil/zz_verif/v"
)

// VH_C10_map: a filtered view with only a map function (solver-chosen result per entry: keep and
// rewrite the stat, exclude, or skip-dir): the map function is consulted for every entry before it
// is reported and exactly once; a kept entry is reported with the rewritten stat; an excluded entry
// is dropped (its children are still visited); skip-dir on a directory drops it with its subtree, on
// a file it drops the file and the rest of its directory.
func VH_C10_map() {
	t := symTree10()
	res := make([]MapResult, len(t.ents))
	for i := range res {
		res[i] = MapResult(v.Choose("map", 3))
	}
	consulted := make([]int, len(t.ents))
	ffs, err := NewFilterFS(t, &FilterOpt{Map: func(p string, st *types.Stat) MapResult {
		for i, e := range t.ents {
			if e.path == p {
				consulted[i]++
				if res[i] == MapResultKeep {
					st.Uid = 77
				}
				return res[i]
			}
		}
		return MapResultKeep
	}})
	if err != nil {
		return
	}
	got := make([]bool, len(t.ents))
	rewritten := true
	err = ffs.Walk(context.Background(), "", func(p string, d gofs.DirEntry, err error) error {
		if err != nil {
			return err
		}
		fi, _ := d.Info()
		for i, e := range t.ents {
			if e.path == p {
				got[i] = true
			}
		}
		if fi.Sys().(*types.Stat).Uid != 77 {
			rewritten = false
		}
		return nil
	})
	v.Assert(err == nil, "walk with a map function succeeds")
	v.Assert(rewritten, "a kept entry is reported with the stat as rewritten by the map function")
	// reference
	skipUnder, skipParent, skipParentSet := "", "", false
	for i, e := range t.ents {
		visited := true
		if skipUnder != "" && isUnder(e.path, skipUnder) {
			visited = false
		}
		if skipParentSet && (specParent(e.path) == skipParent || (skipParent != "" && isUnder(e.path, skipParent))) {
			visited = false
		}
		want := false
		if visited {
			switch res[i] {
			case MapResultKeep:
				want = true
			case MapResultSkipDir:
				v.Cover("skipdir")
				if e.isDir {
					skipUnder = e.path
				} else {
					skipParent, skipParentSet = specParent(e.path), true
				}
			case MapResultExclude:
				v.Cover("exclude")
			}
			v.Assert(consulted[i] == 1, "the map function is consulted exactly once for every visited entry")
		} else {
			v.Assert(consulted[i] == 0, "the map function is not consulted for entries below a skipped directory")
		}
		v.Assert(got[i] == want, "exactly the entries the map function keeps are reported")
	}
}
