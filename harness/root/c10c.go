package fsutil

import (
	"context"
	gofs "io/fs"

	"github.com/tonistiigi/fsutil/types"
	"github.com/tonistiigi/fsutil/zz_verif/v"
)

// VH_C10_map: a filtered view with only a map function (solver-chosen result per entry: keep and
// rewrite the stat, exclude, or skip-dir): the map function is consulted for every entry before it
// is reported and exactly once; a kept entry is reported with the rewritten stat; an excluded entry
// is dropped (its children are still visited); skip-dir on a directory drops it with its subtree, on
// a file it drops the file and the rest of its directory.
func VH_C10_map() {
	t := vh_symTree10()
	res := make([]MapResult, len(t.ents))
	for i := range res {
		res[i] = MapResult(v.Choose("map", 3))
	}
	consulted := make([]int, len(t.ents))
	ffs, err := NewFilterFS(t, &FilterOpt{Map: func(p string, st *types.Stat) MapResult {
		for i, e := range t.ents {
			if e.path == p {
				consulted[i]++
				if res[i] == MapResultKeep {
					st.Uid = 77
				}
				return res[i]
			}
		}
		return MapResultKeep
	}})
	if err != nil {
		return
	}
	got := make([]bool, len(t.ents))
	rewritten := true
	err = ffs.Walk(context.Background(), "", func(p string, d gofs.DirEntry, err error) error {
		if err != nil {
			return err
		}
		fi, _ := d.Info()
		for i, e := range t.ents {
			if e.path == p {
				got[i] = true
			}
		}
		if fi.Sys().(*types.Stat).Uid != 77 {
			rewritten = false
		}
		return nil
	})
	v.Assert(err == nil, "walk with a map function succeeds")
	v.Assert(rewritten, "a kept entry is reported with the stat as rewritten by the map function")
	// reference
	skipUnder, skipParent, skipParentSet := "", "", false
	for i, e := range t.ents {
		visited := true
		if skipUnder != "" && vh_isUnder(e.path, skipUnder) {
			visited = false
		}
		if skipParentSet && (vh_specParent(e.path) == skipParent || (skipParent != "" && vh_isUnder(e.path, skipParent))) {
			visited = false
		}
		want := false
		if visited {
			switch res[i] {
			case MapResultKeep:
				want = true
			case MapResultSkipDir:
				v.Cover("skipdir")
				if e.isDir {
					skipUnder = e.path
				} else {
					skipParent, skipParentSet = vh_specParent(e.path), true
				}
			case MapResultExclude:
				v.Cover("exclude")
			}
			v.Assert(consulted[i] == 1, "the map function is consulted exactly once for every visited entry")
		} else {
			v.Assert(consulted[i] == 0, "the map function is not consulted for entries below a skipped directory")
		}
		v.Assert(got[i] == want, "exactly the entries the map function keeps are reported")
	}
}

var vh_mapPatInc = []string{"**/c", "a/b/c", "a/e", "a/d", "**/d", "a/b", "f", "a/e/c"}
var vh_mapPatExc = []string{"a/b", "**/c", "a/d"}

// VH_C10_mappat: patterns and a map function together, on the concrete tree
// a/{b/{c}, d, e/{c}}, f: <=1 include and <=1 exclude pattern (literal and "**/x" templates, so
// directories are reported lazily as ancestors of kept entries) and a map function with a
// solver-chosen result on every directory and on one solver-chosen file. Asserted: nothing is
// reported whose own map result is not keep; nothing is reported below a directory for which the
// map function says skip-dir (however and whenever that directory was consulted); nothing is
// reported in the rest of a directory after a file for which it says skip-dir; and the reported
// set equals a reference evaluation (pattern selection by the statement's naive rule, ancestors
// consulted outermost first when their first kept descendant appears).
func VH_C10_mappat() {
	paths := []string{"a", "a/b", "a/b/c", "a/d", "a/e", "a/e/c", "f"}
	isDir := map[string]bool{"a": true, "a/b": true, "a/e": true}
	t := &vh_treeFS{}
	for _, p := range paths {
		t.ents = append(t.ents, &vh_treeEnt{path: p, isDir: isDir[p], data: []byte("x")})
	}
	res := map[string]MapResult{}
	for _, p := range paths {
		res[p] = MapResultKeep
		if isDir[p] {
			res[p] = MapResult(v.Choose("map-dir", 3))
		}
	}
	files := []string{"a/b/c", "a/d", "a/e/c", "f"}
	res[files[v.Choose("map-file-at", len(files))]] = MapResult(v.Choose("map-file", 3))

	var incS, excS []string
	if i := v.Choose("inc", len(vh_mapPatInc)+1); i > 0 {
		incS = []string{vh_mapPatInc[i-1]}
	}
	if i := v.Choose("exc", len(vh_mapPatExc)+1); i > 0 {
		excS = []string{vh_mapPatExc[i-1]}
	}
	var inc, exc []vh_refPattern
	for _, p := range incS {
		inc = append(inc, vh_parseRef(p))
	}
	for _, p := range excS {
		exc = append(exc, vh_parseRef(p))
	}
	ffs, err := NewFilterFS(t, &FilterOpt{IncludePatterns: incS, ExcludePatterns: excS, Map: func(p string, st *types.Stat) MapResult {
		return res[p]
	}})
	if err != nil {
		return
	}
	got := map[string]bool{}
	var order []string
	err = ffs.Walk(context.Background(), "", func(p string, d gofs.DirEntry, err error) error {
		if err != nil {
			return err
		}
		v.Assert(!got[p], "every entry is reported at most once")
		got[p] = true
		order = append(order, p)
		return nil
	})
	v.Assert(err == nil, "walk with patterns and a map function succeeds")
	for i := 1; i < len(order); i++ {
		v.Assert(vh_specCmp(order[i-1], order[i]) < 0, "entries are reported in walk order")
	}

	// soundness clauses
	for _, p := range paths {
		if !got[p] {
			continue
		}
		v.Assert(res[p] == MapResultKeep, "an entry the map function drops is not reported")
		for a := vh_specParent(p); a != ""; a = vh_specParent(a) {
			if res[a] == MapResultSkipDir {
				v.Cover("below-skipdir")
			}
			v.Assert(res[a] != MapResultSkipDir, "nothing is reported below a directory for which the map function says skip-dir")
		}
	}

	// reference evaluation
	sel := func(p string) bool {
		return (len(inc) == 0 || vh_refMatchNaive(inc, p)) && !(len(exc) > 0 && vh_refMatchNaive(exc, p))
	}
	patterns := len(inc) > 0 || len(exc) > 0
	want := map[string]bool{}
	skippedDir := map[string]bool{}
	restSkipped := map[string]bool{} // directory ("" = root) whose remaining entries are skipped
	consultedDir := map[string]bool{}
	for _, p := range paths {
		skipped := false
		for a := vh_specParent(p); ; a = vh_specParent(a) {
			if restSkipped[a] || (a != "" && skippedDir[a]) {
				skipped = true
			}
			if a == "" {
				break
			}
		}
		if skipped || !sel(p) {
			continue
		}
		dropRest := func() {
			if isDir[p] {
				skippedDir[p] = true
			} else {
				restSkipped[vh_specParent(p)] = true
			}
		}
		if isDir[p] {
			consultedDir[p] = true
		}
		switch res[p] {
		case MapResultSkipDir:
			v.Cover("skipdir")
			dropRest()
			continue
		case MapResultExclude:
			v.Cover("exclude")
			continue
		}
		dropped := false
		if patterns {
			// ancestors not yet reported, outermost first
			var anc []string
			for a := vh_specParent(p); a != ""; a = vh_specParent(a) {
				anc = append([]string{a}, anc...)
			}
			for _, a := range anc {
				if want[a] || consultedDir[a] {
					continue
				}
				if res[a] == MapResultExclude {
					continue
				}
				if res[a] == MapResultSkipDir {
					v.Cover("lazy-skipdir")
					skippedDir[a] = true
					dropRest()
					dropped = true
					break
				}
				v.Cover("lazy-ancestor")
				want[a] = true
			}
		}
		if !dropped {
			want[p] = true
		}
	}
	for _, p := range paths {
		v.Assert(got[p] == want[p], "the reported set equals the reference evaluation of patterns and map function")
	}
	v.Cover("done")
}
