package fsutil

import (
	"context"
	gofs "io/fs"

	"github.com/tonistiigi/fsutil/zz_verif/v"
)

// refGlob: reference matcher for patterns over components with '*' (any run of non-separator
// bytes inside one component) and '**' (any number of components), written from the dockerignore
// description; used with concrete names only.
func vh_refGlobComps(pat, path []string) bool {
	if len(pat) == 0 {
		return len(path) == 0
	}
	if pat[0] == "**" {
		if len(pat) == 1 {
			return true // trailing ** matches everything below (and the prefix itself)
		}
		for k := 0; k <= len(path); k++ {
			if vh_refGlobComps(pat[1:], path[k:]) {
				return true
			}
		}
		return false
	}
	if len(path) == 0 {
		return false
	}
	return vh_refGlobOne(pat[0], path[0]) && vh_refGlobComps(pat[1:], path[1:])
}

func vh_refGlobOne(p, s string) bool {
	if p == "" {
		return s == ""
	}
	if p[0] == '*' {
		for k := 0; k <= len(s); k++ {
			if vh_refGlobOne(p[1:], s[k:]) {
				return true
			}
		}
		return false
	}
	return len(s) > 0 && p[0] == s[0] && vh_refGlobOne(p[1:], s[1:])
}

func vh_refGlobMatch(p vh_refPattern, path string) bool {
	pc, sc := vh_splitComps(p.text), vh_splitComps(path)
	if len(pc) > 0 && pc[len(pc)-1] == "**" && len(pc) > 1 {
		// "x/**" matches what is below x, not x itself
		if len(sc) < len(pc) {
			return false
		}
	}
	return vh_refGlobComps(pc, sc)
}

func vh_refGlobNaive(pats []vh_refPattern, path string) bool {
	matched := false
	for _, p := range pats {
		mm := vh_refGlobMatch(p, path)
		for q := vh_specParent(path); !mm && q != ""; q = vh_specParent(q) {
			mm = vh_refGlobMatch(p, q)
		}
		if mm {
			matched = !p.excl
		}
	}
	return matched
}

var vh_globTemplates = []string{"a/*/**", "a/*", "a/*/b", "*/b", "a/**/b", "*", "a*", "!a/*/b", "!*/b", "a", "a/b", "!a/b"}

// VH_C10_glob: wildcard patterns ('*' inside a component, '**' across components) on trees with
// solver-chosen concrete names: the filtered walk reports exactly what the naive reference
// evaluation selects (regexp matching runs concretely in the interpreter).
func VH_C10_glob() {
	names := []string{"a", "b", "ab"}
	x, y := names[v.Choose("X", 3)], names[v.Choose("Y", 3)]
	p, q, r := names[v.Choose("P", 3)], names[v.Choose("Q", 3)], names[v.Choose("R", 3)]
	v.Assume(x < y && p < q)
	t := &vh_treeFS{ents: []*vh_treeEnt{
		{path: x, isDir: true},
		{path: x + "/" + p, data: []byte("p")},
		{path: x + "/" + q, isDir: true},
		{path: x + "/" + q + "/" + r, data: []byte("r")},
		{path: y, data: []byte("y")},
	}}
	choose := func(tag string, max int) []string {
		n := v.Choose(tag+"-n", max+1)
		out := make([]string, n)
		for i := range out {
			out[i] = vh_globTemplates[v.Choose(tag, len(vh_globTemplates))]
		}
		return out
	}
	incS, excS := choose("inc", v.Param("NI", 1)), choose("exc", v.Param("NE", 1))
	var inc, exc []vh_refPattern
	for _, s := range incS {
		inc = append(inc, vh_parseRef(s))
	}
	for _, s := range excS {
		exc = append(exc, vh_parseRef(s))
	}
	// stay outside the incremental-matcher class (C10's main harness covers it): no negated pattern
	// together with a positive one in the same list
	for _, lst := range [][]vh_refPattern{inc, exc} {
		neg, pos := false, false
		for _, p := range lst {
			if p.excl {
				neg = true
			} else {
				pos = true
			}
		}
		v.Assume(!(neg && pos))
	}
	ffs, err := NewFilterFS(t, &FilterOpt{IncludePatterns: incS, ExcludePatterns: excS})
	if err != nil {
		return
	}
	got := make([]bool, len(t.ents))
	err = ffs.Walk(context.Background(), "", func(p string, d gofs.DirEntry, err error) error {
		if err != nil {
			return err
		}
		for i, e := range t.ents {
			if e.path == p {
				got[i] = true
			}
		}
		return nil
	})
	v.Assert(err == nil, "filtered walk succeeds")
	keep := make([]bool, len(t.ents))
	for i, e := range t.ents {
		included := len(inc) == 0 || vh_refGlobNaive(inc, e.path)
		excluded := len(exc) > 0 && vh_refGlobNaive(exc, e.path)
		keep[i] = included && !excluded
	}
	for i, e := range t.ents {
		want := keep[i]
		for j, o := range t.ents {
			if keep[j] && vh_isUnder(o.path, e.path) {
				want = true
			}
		}
		v.Assert(got[i] == want, "with wildcard patterns the filtered walk equals the naive reference filter")
	}
	v.Cover("done")
}
