package fsutil

import (
	"context"
	gofs "io/fs"

	"github.com/tonistiigi/fsutil/zz_verif/v"
)

// refGlob: reference matcher for patterns over components with '*' (any run of non-separator
// bytes inside one component) and '**' (any number of components), written from the dockerignore
// description; used with concrete names only.
func refGlobComps(pat, path []string) bool {
	if len(pat) == 0 {
		return len(path) == 0
	}
	if pat[0] == "**" {
		if len(pat) == 1 {
			return true // trailing ** matches everything below (and the prefix itself)
		}
		for k := 0; k <= len(path); k++ {
			if refGlobComps(pat[1:], path[k:]) {
				return true
			}
		}
		return false
	}
	if len(path) == 0 {
		return false
	}
	return refGlobOne(pat[0], path[0]) && refGlobComps(pat[1:], path[1:])
}

func refGlobOne(p, s string) bool {
	if p == "" {
		return s == ""
	}
	if p[0] == '*' {
		for k := 0; k <= len(s); k++ {
			if refGlobOne(p[1:], s[k:]) {
				return true
			}
		}
		return false
	}
	return len(s) > 0 && p[0] == s[0] && refGlobOne(p[1:], s[1:])
}

func refGlobMatch(p refPattern, path string) bool {
	pc, sc := splitComps(p.text), splitComps(path)
	if len(pc) > 0 && pc[len(pc)-1] == "**" && len(pc) > 1 {
		// "x/**" matches what is below x, not x itself
		if len(sc) < len(pc) {
			return false
		}
	}
	return refGlobComps(pc, sc)
}

func refGlobNaive(pats []refPattern, path string) bool {
	matched := false
	for _, p := range pats {
		mm := refGlobMatch(p, path)
		for q := specParent(path); !mm && q != ""; q = specParent(q) {
			mm = refGlobMatch(p, q)
		}
		if mm {
			matched = !p.excl
		}
	}
	return matched
}

var globTemplates = []string{"a/*/**", "a/*", "a/*/b", "*/b", "a/**/b", "*", "a*", "!a/*/b", "!*/b", "a", "a/b", "!a/b"}

// VH_C10_glob: wildcard patterns ('*' inside a component, '**' across components) on trees with
// solver-chosen concrete names: the filtered walk reports exactly what the naive reference
// evaluation selects (regexp matching runs concretely in the interpreter).
func VH_C10_glob() {
	names := []string{"a", "b", "ab"}
	x, y := names[v.Choose("X", 3)], names[v.Choose("Y", 3)]
	p, q, r := names[v.Choose("P", 3)], names[v.Choose("Q", 3)], names[v.Choose("R", 3)]
	v.Assume(x < y && p < q)
	t := &treeFS{ents: []*treeEnt{
		{path: x, isDir: true},
		{path: x + "/" + p, data: []byte("p")},
		{path: x + "/" + q, isDir: true},
		{path: x + "/" + q + "/" + r, data: []byte("r")},
		{path: y, data: []byte("y")},
	}}
	choose := func(tag string, max int) []string {
		n := v.Choose(tag+"-n", max+1)
		out := make([]string, n)
		for i := range out {
			out[i] = globTemplates[v.Choose(tag, len(globTemplates))]
		}
		return out
	}
	incS, excS := choose("inc", v.Param("NI", 1)), choose("exc", v.Param("NE", 1))
	var inc, exc []refPattern
	for _, s := range incS {
		inc = append(inc, parseRef(s))
	}
	for _, s := range excS {
		exc = append(exc, parseRef(s))
	}
	// stay outside the incremental-matcher class (C10's main harness covers it): no negated pattern
	// together with a positive one in the same list
	for _, lst := range [][]refPattern{inc, exc} {
		neg, pos := false, false
		for _, p := range lst {
			if p.excl {
				neg = true
			} else {
				pos = true
			}
		}
		v.Assume(!(neg && pos))
	}
	ffs, err := NewFilterFS(t, &FilterOpt{IncludePatterns: incS, ExcludePatterns: excS})
	if err != nil {
		return
	}
	got := make([]bool, len(t.ents))
	err = ffs.Walk(context.Background(), "", func(p string, d gofs.DirEntry, err error) error {
		if err != nil {
			return err
		}
		for i, e := range t.ents {
			if e.path == p {
				got[i] = true
			}
		}
		return nil
	})
	v.Assert(err == nil, "filtered walk succeeds")
	keep := make([]bool, len(t.ents))
	for i, e := range t.ents {
		included := len(inc) == 0 || refGlobNaive(inc, e.path)
		excluded := len(exc) > 0 && refGlobNaive(exc, e.path)
		keep[i] = included && !excluded
	}
	for i, e := range t.ents {
		want := keep[i]
		for j, o := range t.ents {
			if keep[j] && isUnder(o.path, e.path) {
				want = true
			}
		}
		v.Assert(got[i] == want, "with wildcard patterns the filtered walk equals the naive reference filter")
	}
	v.Cover("done")
}
