package fsutil

import (
	"context"
	"os"

	"github.com/tonistiigi/fsutil/types"
	"github.com/tonistiigi/fsutil/zz_verif/v"
)

// symView: a source view over {"d", "d/f", "e", "g"}: d is a directory, the other three take a
// solver-chosen class (regular / symlink / fifo, "g" may also be absent) with symbolic permission
// bits; regular files carry 0..MAXB symbolic bytes.
func vh_symView(maxb int) *vh_memFS {
	fs := &vh_memFS{walkErrAt: -1}
	add := func(p string, class int) {
		e := &vh_memEntry{stat: &types.Stat{Path: p, Mode: vh_modeFor(class, v.U32("perm"))}}
		if class == vh_clsFile {
			e.data = v.Bytes("data", v.Choose("size", maxb+1))
			e.stat.Size = int64(len(e.data))
		}
		if class == vh_clsSymlink {
			e.stat.Linkname = "t"
		}
		fs.entries = append(fs.entries, e)
	}
	firstFile := ""
	// ".g": an optional entry whose name starts with a dot (sorts before everything else)
	for _, p := range []string{".g", "d", "d/f", "e"} {
		if p == "d" {
			add("d", vh_clsDir)
			continue
		}
		if p == ".g" && !v.Bool("has-g") {
			continue
		}
		// class clsCount: a hard link to the first regular file announced so far (a regular
		// entry whose stat names that file; its bytes are the bytes of the group)
		c := 1 + v.Choose("class", vh_clsCount)
		if c == vh_clsCount {
			v.Assume(firstFile != "")
			var src *vh_memEntry
			for _, e := range fs.entries {
				if e.stat.Path == firstFile {
					src = e
				}
			}
			e := &vh_memEntry{stat: &types.Stat{Path: p, Mode: src.stat.Mode, Linkname: firstFile}, data: src.data}
			fs.entries = append(fs.entries, e)
			v.Cover("hardlink-entry")
			continue
		}
		add(p, c)
		if c == vh_clsFile && firstFile == "" {
			firstFile = p
		}
	}
	return fs
}

// VH_C06_sender: the real Send against a reference receiver written from the protocol comment:
// it reads STATs up to the empty one, then sends a script of REQs (ids chosen by the solver among
// all announced positions, in any order), checks DATA framing per id, sends FIN and expects the
// echo. Invalid requests (non-regular, repeated, never announced) must make Send fail.
func VH_C06_sender() {
	maxb, nreq := v.Param("MAXB", 2), v.Param("NREQ", 2)
	view := vh_symView(maxb)
	if v.Param("OPENERR", 0) != 0 {
		// a file that was announced but can no longer be opened when it is requested (it vanished
		// after the walk); what the sender then delivers for it is not asserted here (see the C04
		// known finding), but the id is used up all the same
		for _, e := range view.entries {
			if os.FileMode(e.stat.Mode)&os.ModeType == 0 && v.Bool("open-fails") {
				e.openErr = true
				v.Cover("open-fails")
			}
		}
	}
	ctx := context.Background()
	snd, rcv := vh_newStreamPair(ctx, 256)
	var sendErr error
	done := make(chan struct{})
	lastProgress, finals, progressOK := 0, 0, true
	go func() {
		sendErr = Send(ctx, snd, view, func(n int, last bool) {
			if n < lastProgress || finals > 0 {
				progressOK = false
			}
			lastProgress = n
			if last {
				finals++
			}
		})
		snd.CloseSend()
		close(done)
	}()

	// phase A: STAT sequence
	var stats []*types.Stat
	for {
		var p types.Packet
		if err := rcv.RecvMsg(&p); err != nil {
			v.Assert(false, "stream ended before the end-of-stats marker")
			return
		}
		v.Assert(p.Type == types.PACKET_STAT, "only STAT packets before any request")
		if p.Stat == nil {
			break
		}
		stats = append(stats, p.Stat)
	}
	v.Assert(len(stats) == len(view.entries), "one STAT per entry of the view")
	for i, st := range stats {
		if i < len(view.entries) {
			v.Assert(st.Path == view.entries[i].stat.Path && st.Mode == view.entries[i].stat.Mode && st.Linkname == view.entries[i].stat.Linkname, "STAT i describes the i-th entry of the view")
		}
		if i > 0 {
			v.Assert(vh_specCmp(stats[i-1].Path, st.Path) < 0, "STATs strictly ascending in protocol order")
		}
	}

	// phase B: request script
	requested := map[uint32]bool{}
	valid := true
	for r := 0; r < nreq && valid; r++ {
		id := uint32(v.Choose("req", len(stats)+1)) // len(stats) = an id that was never announced
		isRegular := int(id) < len(stats) && os.FileMode(stats[id].Mode)&os.ModeType == 0
		if !isRegular || requested[id] {
			valid = false
		}
		requested[id] = true
		if err := rcv.SendMsg(&types.Packet{Type: types.PACKET_REQ, ID: id}); err != nil {
			return
		}
		if !valid {
			v.Cover("invalid-request")
			break
		}
		v.Cover("valid-request")
		// collect DATA for this id (the reference receiver waits for each file in turn)
		var got []byte
		for {
			var p types.Packet
			if err := rcv.RecvMsg(&p); err != nil {
				v.Assert(false, "stream ended inside a file transfer")
				return
			}
			v.Assert(p.Type == types.PACKET_DATA && p.ID == id, "DATA packets carry the requested id")
			if len(p.Data) == 0 {
				break
			}
			got = append(got, p.Data...)
		}
		if !view.entries[id].openErr {
			v.Assert(string(got) == string(view.entries[id].data), "DATA payloads concatenate to the file bytes, ended by one empty DATA")
		}
	}
	if !valid {
		<-done
		v.Assert(sendErr != nil, "an invalid request id makes Send fail")
		v.Assert(v.Goroutines() == 0, "every sender goroutine has ended")
		return
	}
	// phase C: FIN handshake
	if err := rcv.SendMsg(&types.Packet{Type: types.PACKET_FIN}); err != nil {
		return
	}
	var p types.Packet
	err := rcv.RecvMsg(&p)
	v.Assert(err == nil && p.Type == types.PACKET_FIN, "FIN is echoed")
	<-done
	v.Assert(sendErr == nil, "Send returns success after the FIN handshake")
	err = rcv.RecvMsg(&p)
	v.Assert(err != nil, "nothing is sent after the FIN echo")
	v.Assert(progressOK && finals == 1, "progress is non-decreasing and ends with exactly one final call")
	v.Assert(v.Goroutines() == 0, "every sender goroutine has ended")
	v.Cover("fin")
}

// VH_C06_burst: the reference receiver sends its whole request script back to back (no waiting
// for the content of one file before asking for the next) and then sorts the DATA packets by id,
// whatever their interleaving: every requested id gets its bytes in order and exactly one
// terminator, nothing arrives for ids that were not requested or after an id's terminator, and a
// script containing a repeated, non-regular or never-announced id makes Send fail.
func VH_C06_burst() {
	maxb, nreq := v.Param("MAXB", 1), v.Param("NREQ", 3)
	view := vh_symView(maxb)
	ctx := context.Background()
	snd, rcv := vh_newStreamPair(ctx, 256)
	var sendErr error
	done := make(chan struct{})
	go func() {
		sendErr = Send(ctx, snd, view, nil)
		snd.CloseSend()
		close(done)
	}()
	var stats []*types.Stat
	for {
		var p types.Packet
		if err := rcv.RecvMsg(&p); err != nil {
			v.Assert(false, "stream ended before the end-of-stats marker")
			return
		}
		if p.Stat == nil {
			break
		}
		stats = append(stats, p.Stat)
	}
	n := 1 + v.Choose("nreq", nreq)
	requested := map[uint32]bool{}
	var order []uint32
	valid := true
	for r := 0; r < n; r++ {
		id := uint32(v.Choose("req", len(stats)+1))
		isRegular := int(id) < len(stats) && os.FileMode(stats[id].Mode)&os.ModeType == 0
		if !isRegular || requested[id] {
			valid = false
		}
		if !requested[id] {
			order = append(order, id)
		}
		requested[id] = true
		if err := rcv.SendMsg(&types.Packet{Type: types.PACKET_REQ, ID: id}); err != nil {
			break
		}
	}
	if valid {
		v.Cover("valid-burst")
	} else {
		v.Cover("invalid-burst")
	}
	got := map[uint32][]byte{}
	ended := map[uint32]bool{}
	nEnded := 0
	for !valid || nEnded < len(order) {
		var p types.Packet
		if err := rcv.RecvMsg(&p); err != nil {
			v.Assert(!valid, "stream ended before every requested file was delivered")
			break
		}
		if p.Type != types.PACKET_DATA {
			v.Assert(!valid && p.Type == types.PACKET_ERR, "only DATA packets answer requests")
			continue
		}
		v.Assert(requested[p.ID], "DATA only for requested ids")
		v.Assert(!ended[p.ID], "nothing follows the terminator of an id")
		if len(p.Data) == 0 {
			ended[p.ID] = true
			nEnded++
		} else {
			got[p.ID] = append(got[p.ID], p.Data...)
		}
	}
	if !valid {
		<-done
		v.Assert(sendErr != nil, "an invalid request id in a burst makes Send fail")
		v.Assert(v.Goroutines() == 0, "every sender goroutine has ended")
		return
	}
	for _, id := range order {
		v.Assert(string(got[id]) == string(view.entries[id].data), "per id the DATA payloads concatenate to the file bytes")
	}
	if err := rcv.SendMsg(&types.Packet{Type: types.PACKET_FIN}); err != nil {
		return
	}
	var p types.Packet
	err := rcv.RecvMsg(&p)
	v.Assert(err == nil && p.Type == types.PACKET_FIN, "FIN is echoed")
	<-done
	v.Assert(sendErr == nil, "Send returns success after the FIN handshake")
	v.Assert(v.Goroutines() == 0, "every sender goroutine has ended")
	v.Cover("fin")
}
