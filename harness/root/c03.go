package fsutil

import (
	"os"
	"path/filepath"

	"github.com/tonistiigi/fsutil/types"
	"github.com/tonistiigi/fsutil/zz_verif/v"
)

// VH_C03_join: every path the real validator accepts (from its initial state) is lexically
// contained: filepath.Join(dest, p) is dest + "/" + p, i.e. strictly below dest.
func VH_C03_join() {
	n := v.Param("N", 3)
	p := v.String("p", n)
	isDir := v.Bool("dir")
	var val Validator
	err := val.HandleChange(ChangeKindAdd, p, vh_statInfoFor(isDir), nil)
	v.Observe("accepted", err == nil)
	if err != nil {
		v.Cover("rejected")
		return
	}
	v.Cover("accepted")
	const dest = "/dest"
	j := filepath.Join(dest, p)
	v.Observe("joined", j)
	v.Assert(j == dest+"/"+p, "Join(dest, accepted path) is dest/p: strictly inside dest")
	v.Assert(vh_specWellFormed(p), "accepted path is component-wise well formed")
}

// VH_C03_join2: the same for a path accepted as the child of an accepted directory.
func VH_C03_join2() {
	n := v.Param("N", 2)
	d := v.String("d", v.Choose("ld", n)+1)
	c := v.String("c", v.Choose("lc", n)+1)
	var val Validator
	if val.HandleChange(ChangeKindAdd, d, vh_statInfoFor(true), nil) != nil {
		return
	}
	p := d + "/" + c
	err := val.HandleChange(ChangeKindAdd, p, vh_statInfoFor(v.Bool("dir")), nil)
	v.Observe("accepted", err == nil)
	if err != nil {
		v.Cover("rejected")
		return
	}
	v.Cover("accepted")
	const dest = "/dest"
	v.Assert(filepath.Join(dest, p) == dest+"/"+p, "Join(dest, accepted child path) is dest/p")
	v.Assert(vh_specWellFormed(p), "accepted child path is component-wise well formed")
}

func vh_statFor(class int, link string) *types.Stat {
	st := &types.Stat{Linkname: link}
	switch class {
	case 0:
		st.Mode = uint32(os.ModeDir) | 0755
	case 1:
		st.Mode = 0644
	case 2:
		st.Mode = uint32(os.ModeSymlink) | 0777
	}
	return st
}

// VH_C03_links: after K (path, linkname, class) triples through the order validator and the
// hard-link validator (in the order the receive loop calls them), every accepted hard link names
// an earlier accepted regular non-link entry, and nothing is accepted after a rejection.
func VH_C03_links() {
	k, n := v.Param("K", 3), v.Param("N", 2)
	var ov Validator
	var hv Hardlinks
	var regular []string
	for i := 0; i < k; i++ {
		p := v.String("p", v.Choose("lp", n)+1)
		link := v.String("l", v.Choose("ll", n+1))
		class := v.Choose("class", 3)
		st := vh_statFor(class, link)
		st.Path = p
		if err := ov.HandleChange(ChangeKindAdd, p, &StatInfo{st}, nil); err != nil {
			v.Cover("order-rejected")
			return
		}
		if err := hv.HandleChange(ChangeKindAdd, p, &StatInfo{st}, nil); err != nil {
			v.Cover("link-rejected")
			return
		}
		if class == 1 {
			if link != "" {
				found := false
				for _, r := range regular {
					if r == link {
						found = true
					}
				}
				v.Cover("link-accepted")
				v.Assert(found, "accepted hard link names an earlier accepted regular entry")
			} else {
				regular = append(regular, p)
			}
		}
	}
	v.Cover("all-accepted")
}
