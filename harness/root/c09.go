package fsutil

import (
	"github.com/tonistiigi/fsutil/zz_verif/v"
)

func vh_noSlash(s string) bool {
	for i := 0; i < len(s); i++ {
		if s[i] == '/' {
			return false
		}
	}
	return true
}

// VH_C09_order_lemma: the step of the induction that makes a pre-order walk over bytewise sorted
// directory listings strictly ascending in protocol order: for sibling names x < y (bytewise, any
// byte but '/'), everything at or below d/x sorts before everything at or below d/y, and a
// directory sorts before its contents.
func VH_C09_order_lemma() {
	nd, nn := v.Param("ND", 2), v.Param("NN", 2)
	d := v.String("d", v.Choose("ld", nd+1))
	x := v.String("x", v.Choose("lx", nn)+1)
	y := v.String("y", v.Choose("ly", nn)+1)
	v.Assume(vh_noSlash(x) && vh_noSlash(y) && x < y)
	pre := ""
	if d != "" {
		v.Assume(d[len(d)-1] != '/')
		pre = d + "/"
	}
	px, py := pre+x, pre+y
	if v.Bool("xdeep") {
		px += "/" + v.String("tx", 1)
	}
	if v.Bool("ydeep") {
		py += "/" + v.String("ty", 1)
	}
	c := ComparePath(px, py)
	v.Observe("cmp", vh_sign(c))
	v.Assert(c < 0, "entries below the smaller sibling sort before entries below the larger sibling")
	v.Assert(ComparePath(pre+x, pre+x+"/"+v.String("child", 1)) < 0, "a directory sorts before its contents")
	v.Cover("done")
}
