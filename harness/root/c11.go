package fsutil

import (
	"context"
	"io"
	gofs "io/fs"
	"os"

	"github.com/tonistiigi/fsutil/types"
	"github.com/tonistiigi/fsutil/zz_verif/v"
)

// VH_C11_open: for the tree and pattern classes of C10, every regular file the filtered walk
// reports can be opened through the same filtered view and yields its bytes, and a file the walk
// hides cannot be opened.
func VH_C11_open() {
	t := vh_symTree10()
	incS, excS := vh_choosePatterns("inc", v.Param("NI", 1)), vh_choosePatterns("exc", v.Param("NE", 1))
	var inc, exc []vh_refPattern
	for _, p := range incS {
		inc = append(inc, vh_parseRef(p))
	}
	for _, p := range excS {
		exc = append(exc, vh_parseRef(p))
	}
	ffs, err := NewFilterFS(t, &FilterOpt{IncludePatterns: incS, ExcludePatterns: excS})
	if err != nil {
		return
	}
	reported := make([]bool, len(t.ents))
	err = ffs.Walk(context.Background(), "", func(p string, d gofs.DirEntry, err error) error {
		if err != nil {
			return err
		}
		for i, e := range t.ents {
			if e.path == p {
				reported[i] = true
			}
		}
		return nil
	})
	v.Assert(err == nil, "filtered walk succeeds")
	naive, incr := vh_refSelect(t, inc, exc, false), vh_refSelect(t, inc, exc, true)
	refsDiffer := false
	for i := range naive {
		refsDiffer = v.Or(refsDiffer, naive[i] != incr[i])
	}
	for i, e := range t.ents {
		if e.isDir {
			continue
		}
		rc, err := ffs.Open(e.path)
		if reported[i] {
			v.Cover("reported")
			if refsDiffer {
				v.Assert(err == nil, "a regular file reported by the filtered walk can be opened through the same view [class: negated pattern on an ancestor skipped by the incremental matcher]")
			} else {
				v.Assert(err == nil, "a regular file reported by the filtered walk can be opened through the same view")
			}
			if err == nil {
				b, _ := io.ReadAll(rc)
				v.Assert(string(b) == string(e.data), "the opened file yields its bytes")
			}
		} else {
			v.Cover("hidden")
			if refsDiffer {
				v.Assert(err != nil, "a path the filtered walk hides cannot be opened [class: negated pattern on an ancestor skipped by the incremental matcher]")
			} else {
				v.Assert(err != nil, "a path the filtered walk hides cannot be opened")
			}
		}
	}
}

// hidingFS hides a solver-chosen subset of the entries of the view below it (what an
// include/exclude filter does from the point of view of the hard-link reset).
type vh_hidingFS struct {
	fs     FS
	hidden map[string]bool
}

func (h *vh_hidingFS) Walk(ctx context.Context, target string, fn gofs.WalkDirFunc) error {
	return h.fs.Walk(ctx, target, func(p string, d gofs.DirEntry, err error) error {
		if err == nil && h.hidden[p] {
			return nil
		}
		return fn(p, d, err)
	})
}
func (h *vh_hidingFS) Open(p string) (io.ReadCloser, error) { return h.fs.Open(p) }

// VH_C11_hardlinks: a well-formed view (links name the first member of their group in walk order)
// from which a filter hides an arbitrary subset, passed through WithHardlinkReset: the result is
// accepted by fresh order and hard-link validators; within every group the first visible member
// is a regular entry without link name and each later visible member links to it.
func VH_C11_hardlinks() {
	paths := []string{"a", "b", "d", "d/e", "f"}
	isDir := map[string]bool{"d": true}
	t := &vh_treeFS{}
	group := map[string]int{}
	firstOf := map[int]string{}
	modeOf := map[int]uint32{}
	ng := 0
	for _, p := range paths {
		e := &vh_treeEnt{path: p, isDir: isDir[p]}
		if !e.isDir {
			g := v.Choose("group", ng+1) // join an existing group or start a new one
			if g == ng {
				ng++
				firstOf[g] = p
				// the inode is a regular file, a fifo or a character device (the walker reports
				// every non-directory inode with several names as a link group)
				switch v.Choose("class", 3) {
				case 0:
					e.data = v.Bytes("data", 1)
				case 1:
					e.mode = uint32(os.ModeNamedPipe) | 0644
				case 2:
					e.mode = uint32(os.ModeDevice|os.ModeCharDevice) | 0600
				}
				modeOf[g] = e.mode
			} else {
				e.link, e.mode = firstOf[g], modeOf[g]
				v.Cover("link")
				if e.mode != 0 {
					v.Cover("special-link")
				}
			}
			group[p] = g
		}
		t.ents = append(t.ents, e)
	}
	hidden := map[string]bool{}
	for _, p := range paths {
		if !isDir[p] && v.Bool("hide") {
			hidden[p] = true
			v.Cover("hidden")
		}
	}
	view := WithHardlinkReset(&vh_hidingFS{fs: t, hidden: hidden})
	var ov Validator
	var hv Hardlinks
	firstVisible := map[int]string{}
	err := view.Walk(context.Background(), "", func(p string, d gofs.DirEntry, err error) error {
		if err != nil {
			return err
		}
		fi, err := d.Info()
		if err != nil {
			return err
		}
		st := fi.Sys().(*types.Stat)
		v.Assert(ov.HandleChange(ChangeKindAdd, p, fi, nil) == nil, "the reset view is ordered and parent closed")
		v.Assert(hv.HandleChange(ChangeKindAdd, p, fi, nil) == nil, "every hard link of the reset view names an entry that is itself in the view")
		if !fi.IsDir() {
			g := group[p]
			if first, ok := firstVisible[g]; ok {
				v.Assert(st.Linkname == first, "a later visible member of a group links to the first visible member")
			} else {
				firstVisible[g] = p
				v.Assert(st.Linkname == "", "the first visible member of a group is a regular entry without link name")
			}
		}
		return nil
	})
	v.Assert(err == nil, "walk of the reset view succeeds")
	// a promoted member serves the bytes of the group
	for g, p := range firstVisible {
		if modeOf[g] != 0 {
			continue
		}
		rc, err := view.Open(p)
		v.Assert(err == nil, "the first visible member can be opened")
		if err == nil {
			b, _ := io.ReadAll(rc)
			var want []byte
			for _, e := range t.ents {
				if e.path == firstOf[g] {
					want = e.data
				}
			}
			if p == firstOf[g] {
				v.Assert(string(b) == string(want), "the first member yields the bytes of the group")
			}
		}
	}
	v.Cover("done")
}

// VH_C11_send: the same views sent with the real Send (which applies the hard-link reset itself):
// a reference receiver accepts the STAT stream with fresh order and hard-link validators, requests
// every regular non-link entry and gets exactly the bytes of that entry's group; the transfer
// ends with the FIN handshake. Names include one starting with a dot.
func VH_C11_send() {
	paths := []string{".a", "b", "d", "d/e", "f"}
	isDir := map[string]bool{"d": true}
	t := &vh_treeFS{}
	firstOf := map[int]string{}
	dataOf := map[string][]byte{}
	ng := 0
	for _, p := range paths {
		e := &vh_treeEnt{path: p, isDir: isDir[p]}
		if !e.isDir {
			g := v.Choose("group", ng+1)
			if g == ng {
				ng++
				firstOf[g] = p
				e.data = v.Bytes("data", 1)
			} else {
				e.link = firstOf[g]
				for _, o := range t.ents {
					if o.path == firstOf[g] {
						e.data = o.data // every name of the inode opens to the same bytes
					}
				}
			}
			dataOf[p] = e.data
		}
		t.ents = append(t.ents, e)
	}
	hidden := map[string]bool{}
	for _, p := range paths {
		if !isDir[p] && v.Bool("hide") {
			hidden[p] = true
		}
	}
	ctx := context.Background()
	snd, rcv := vh_newStreamPair(ctx, 256)
	var sendErr error
	done := make(chan struct{})
	go func() {
		sendErr = Send(ctx, snd, &vh_hidingFS{fs: t, hidden: hidden}, nil)
		snd.CloseSend()
		close(done)
	}()
	var ov Validator
	var hv Hardlinks
	var stats []*types.Stat
	for {
		var p types.Packet
		if err := rcv.RecvMsg(&p); err != nil {
			v.Assert(false, "stream ended before the end-of-stats marker")
			return
		}
		if p.Stat == nil {
			break
		}
		st := p.Stat
		fi := &StatInfo{st}
		v.Assert(!hidden[st.Path], "a hidden entry is not announced")
		v.Assert(ov.HandleChange(ChangeKindAdd, st.Path, fi, nil) == nil, "the announced stream is ordered and parent closed")
		v.Assert(hv.HandleChange(ChangeKindAdd, st.Path, fi, nil) == nil, "every announced hard link names an announced entry")
		stats = append(stats, st)
	}
	nVisible := 0
	for _, p := range paths {
		if !hidden[p] {
			nVisible++
		}
	}
	v.Assert(len(stats) == nVisible, "exactly the visible entries are announced")
	for id, st := range stats {
		if os.FileMode(st.Mode)&os.ModeType != 0 || st.Linkname != "" {
			continue
		}
		v.Cover("requested")
		if err := rcv.SendMsg(&types.Packet{Type: types.PACKET_REQ, ID: uint32(id)}); err != nil {
			return
		}
		var got []byte
		for {
			var p types.Packet
			if err := rcv.RecvMsg(&p); err != nil {
				v.Assert(false, "stream ended inside a file transfer")
				return
			}
			v.Assert(p.Type == types.PACKET_DATA && p.ID == uint32(id), "DATA packets carry the requested id")
			if len(p.Data) == 0 {
				break
			}
			got = append(got, p.Data...)
		}
		v.Assert(string(got) == string(dataOf[st.Path]), "a visible regular entry (promoted or not) is delivered with the bytes of its group")
	}
	if err := rcv.SendMsg(&types.Packet{Type: types.PACKET_FIN}); err != nil {
		return
	}
	var p types.Packet
	err := rcv.RecvMsg(&p)
	v.Assert(err == nil && p.Type == types.PACKET_FIN, "FIN is echoed")
	<-done
	v.Assert(sendErr == nil, "the transfer of a filtered view succeeds")
	v.Cover("done")
}
