package fsutil

import (
	"context"
	"io"
	gofs "io/fs"
	"os"

	"github.com/tonistiigi/fsutil/types"
	"github.com/tonistiigi/fsutil/zz_verif/v"
)

// VH_C11_open: for the tree and pattern classes of C10, every regular file the filtered walk
// reports can be opened through the same filtered view and yields its bytes, and a file the walk
// hides cannot be opened.
func VH_C11_open() {
	t := symTree10()
	incS, excS := choosePatterns("inc", v.Param("NI", 1)), choosePatterns("exc", v.Param("NE", 1))
	var inc, exc []refPattern
	for _, p := range incS {
		inc = append(inc, parseRef(p))
	}
	for _, p := range excS {
		exc = append(exc, parseRef(p))
	}
	ffs, err := NewFilterFS(t, &FilterOpt{IncludePatterns: incS, ExcludePatterns: excS})
	if err != nil {
		return
	}
	reported := make([]bool, len(t.ents))
	err = ffs.Walk(context.Background(), "", func(p string, d gofs.DirEntry, err error) error {
		if err != nil {
			return err
		}
		for i, e := range t.ents {
			if e.path == p {
				reported[i] = true
			}
		}
		return nil
	})
	v.Assert(err == nil, "filtered walk succeeds")
	naive, incr := refSelect(t, inc, exc, false), refSelect(t, inc, exc, true)
	refsDiffer := false
	for i := range naive {
		refsDiffer = v.Or(refsDiffer, naive[i] != incr[i])
	}
	for i, e := range t.ents {
		if e.isDir {
			continue
		}
		rc, err := ffs.Open(e.path)
		if reported[i] {
			v.Cover("reported")
			if refsDiffer {
				v.Assert(err == nil, "a regular file reported by the filtered walk can be opened through the same view [class: negated pattern on an ancestor skipped by the incremental matcher]")
			} else {
				v.Assert(err == nil, "a regular file reported by the filtered walk can be opened through the same view")
			}
			if err == nil {
				b, _ := io.ReadAll(rc)
				v.Assert(string(b) == string(e.data), "the opened file yields its bytes")
			}
		} else {
			v.Cover("hidden")
			if refsDiffer {
				v.Assert(err != nil, "a path the filtered walk hides cannot be opened [class: negated pattern on an ancestor skipped by the incremental matcher]")
			} else {
				v.Assert(err != nil, "a path the filtered walk hides cannot be opened")
			}
		}
	}
}

// hidingFS hides a solver-chosen subset of the entries of the view below it (what an
// include/exclude filter does from the point of view of the hard-link reset).
type hidingFS struct {
	fs     FS
	hidden map[string]bool
}

func (h *hidingFS) Walk(ctx context.Context, target string, fn gofs.WalkDirFunc) error {
	return h.fs.Walk(ctx, target, func(p string, d gofs.DirEntry, err error) error {
		if err == nil && h.hidden[p] {
			return nil
		}
		return fn(p, d, err)
	})
}
func (h *hidingFS) Open(p string) (io.ReadCloser, error) { return h.fs.Open(p) }

// VH_C11_hardlinks: a well-formed view (links name the first member of their group in walk order)
// from which a filter hides an arbitrary subset, passed through WithHardlinkReset: the result is
// accepted by fresh order and hard-link validators; within every group the first visible member
// is a regular entry without link name and each later visible member links to it.
func VH_C11_hardlinks() {
	paths := []string{"a", "b", "d", "d/e", "f"}
	isDir := map[string]bool{"d": true}
	t := &treeFS{}
	group := map[string]int{}
	firstOf := map[int]string{}
	modeOf := map[int]uint32{}
	ng := 0
	for _, p := range paths {
		e := &treeEnt{path: p, isDir: isDir[p]}
		if !e.isDir {
			g := v.Choose("group", ng+1) // join an existing group or start a new one
			if g == ng {
				ng++
				firstOf[g] = p
				// the inode is a regular file, a fifo or a character device (the walker reports
				// every non-directory inode with several names as a link group)
				switch v.Choose("class", 3) {
				case 0:
					e.data = v.Bytes("data", 1)
				case 1:
					e.mode = uint32(os.ModeNamedPipe) | 0644
				case 2:
					e.mode = uint32(os.ModeDevice|os.ModeCharDevice) | 0600
				}
				modeOf[g] = e.mode
			} else {
				e.link, e.mode = firstOf[g], modeOf[g]
				v.Cover("link")
				if e.mode != 0 {
					v.Cover("special-link")
				}
			}
			group[p] = g
		}
		t.ents = append(t.ents, e)
	}
	hidden := map[string]bool{}
	for _, p := range paths {
		if !isDir[p] && v.Bool("hide") {
			hidden[p] = true
			v.Cover("hidden")
		}
	}
	view := WithHardlinkReset(&hidingFS{fs: t, hidden: hidden})
	var ov Validator
	var hv Hardlinks
	firstVisible := map[int]string{}
	err := view.Walk(context.Background(), "", func(p string, d gofs.DirEntry, err error) error {
		if err != nil {
			return err
		}
		fi, err := d.Info()
		if err != nil {
			return err
		}
		st := fi.Sys().(*types.Stat)
		v.Assert(ov.HandleChange(ChangeKindAdd, p, fi, nil) == nil, "the reset view is ordered and parent closed")
		v.Assert(hv.HandleChange(ChangeKindAdd, p, fi, nil) == nil, "every hard link of the reset view names an entry that is itself in the view")
		if !fi.IsDir() {
			g := group[p]
			if first, ok := firstVisible[g]; ok {
				v.Assert(st.Linkname == first, "a later visible member of a group links to the first visible member")
			} else {
				firstVisible[g] = p
				v.Assert(st.Linkname == "", "the first visible member of a group is a regular entry without link name")
			}
		}
		return nil
	})
	v.Assert(err == nil, "walk of the reset view succeeds")
	// a promoted member serves the bytes of the group
	for g, p := range firstVisible {
		if modeOf[g] != 0 {
			continue
		}
		rc, err := view.Open(p)
		v.Assert(err == nil, "the first visible member can be opened")
		if err == nil {
			b, _ := io.ReadAll(rc)
			var want []byte
			for _, e := range t.ents {
				if e.path == firstOf[g] {
					want = e.data
				}
			}
			if p == firstOf[g] {
				v.Assert(string(b) == string(want), "the first member yields the bytes of the group")
			}
		}
	}
	v.Cover("done")
}
