package fsutil

import (
	"context"
	"io"
	gofs "io/fs"
	"os"

	"github.com/tonistiigi/fsutil/types"
	"github.com/tonistiigi/fsutil/zz_verif/v"
)

// ---------------------------------------------------------------- a synthetic tree view with real SkipDir semantics

type vh_treeEnt struct {
	path  string
	isDir bool
	data  []byte
	link  string // hard-link source (non-directory entries)
	mode  uint32 // file-type and permission bits; 0: regular 0644 / directory 0755
}

type vh_treeFS struct{ ents []*vh_treeEnt } // entries in protocol order

func (f *vh_treeFS) Walk(ctx context.Context, target string, fn gofs.WalkDirFunc) error {
	skipUnder, skipParent := "", ""
	skipParentSet := false
	for _, e := range f.ents {
		if skipUnder != "" && vh_isUnder(e.path, skipUnder) {
			continue
		}
		if skipParentSet && vh_specParent(e.path) == skipParent {
			continue
		}
		if skipParentSet && skipParent != "" && vh_isUnder(e.path, skipParent) {
			continue
		}
		mode := uint32(0644)
		if e.isDir {
			mode = uint32(os.ModeDir) | 0755
		}
		if e.mode != 0 {
			mode = e.mode
		}
		st := &types.Stat{Path: e.path, Mode: mode, Size: int64(len(e.data)), Linkname: e.link}
		err := fn(e.path, &DirEntryInfo{Stat: st}, nil)
		if err == gofs.SkipDir {
			if e.isDir {
				skipUnder = e.path
			} else {
				skipParent, skipParentSet = vh_specParent(e.path), true
				if skipParent == "" {
					return nil
				}
			}
			continue
		}
		if err != nil {
			return err
		}
	}
	return nil
}

func (f *vh_treeFS) Open(p string) (io.ReadCloser, error) {
	for _, e := range f.ents {
		if e.path == p && !e.isDir {
			return &vh_fragFile{data: e.data}, nil
		}
	}
	return nil, os.ErrNotExist
}

// ---------------------------------------------------------------- reference pattern semantics (literal, "x/**", "**/y", "!")

type vh_refPattern struct {
	excl bool
	text string
}

func vh_parseRef(p string) vh_refPattern {
	if len(p) > 0 && p[0] == '!' {
		return vh_refPattern{true, p[1:]}
	}
	return vh_refPattern{false, p}
}

// refMatchOne: does the pattern match exactly this path (no ancestor rule)?
func vh_refMatchOne(p vh_refPattern, path string) bool {
	t := p.text
	if len(t) >= 3 && t[len(t)-3:] == "/**" { // everything below the prefix
		pre := t[:len(t)-2]
		return len(path) >= len(pre) && path[:len(pre)] == pre
	}
	if len(t) >= 3 && t[:3] == "**/" { // the name at any depth
		suf := t[2:]
		if len(path) >= len(suf) && path[len(path)-len(suf):] == suf {
			return true
		}
		return path == suf[1:]
	}
	return path == t
}

// refMatchNaive: the statement's evaluation: a match of the path or of any ancestor counts, later
// patterns override earlier ones, '!' negates.
func vh_refMatchNaive(pats []vh_refPattern, path string) bool {
	matched := false
	for _, p := range pats {
		m := vh_refMatchOne(p, path)
		for q := vh_specParent(path); !m && q != ""; q = vh_specParent(q) {
			m = vh_refMatchOne(p, q)
		}
		if m {
			matched = !p.excl
		}
	}
	return matched
}

// refMatchIncr: the same list evaluated with the per-pattern results of the parent directory
// threaded down, the way the pinned patternmatcher documents MatchesUsingParentResults: a pattern
// is only evaluated on an entry when its outcome could change the running verdict, and what was not
// evaluated on a directory is not known to its children.
func vh_refMatchIncr(pats []vh_refPattern, path string, parent []bool) (bool, []bool) {
	res := make([]bool, len(pats))
	matched := false
	for i, p := range pats {
		m := false
		if parent != nil {
			m = parent[i]
		}
		if !m {
			if p.excl != matched {
				continue
			}
			m = vh_refMatchOne(p, path)
			if !m && parent == nil {
				for q := vh_specParent(path); !m && q != ""; q = vh_specParent(q) {
					m = vh_refMatchOne(p, q)
				}
			}
		}
		res[i] = m
		if m {
			matched = !p.excl
		}
	}
	return matched, res
}

var vh_c10Templates = []string{"a", "b", "a/b", "a/a", "a/b/a", "!a", "!a/b", "!a/a", "a/**", "**/b", "!a/**", "!**/b", "a/b/**", "!a/b/a"}

func vh_choosePatterns(tag string, max int) []string {
	n := v.Choose(tag+"-n", max+1)
	out := make([]string, n)
	for i := range out {
		out[i] = vh_c10Templates[v.Choose(tag, len(vh_c10Templates))]
	}
	return out
}

func vh_oneByteName(tag string) string {
	s := v.String(tag, 1)
	v.Assume(s[0] != '/' && s[0] != 0 && s[0] != '.') // a valid path component ("." is not one)
	return s
}

// symTree: X/ {X/P, X/Q/ {X/Q/R}}, Y with one-byte symbolic names (siblings ascending): names equal
// to, or different from, the pattern literals arise from the solver.
func vh_symTree10() *vh_treeFS {
	x, y, p, q, r := vh_oneByteName("X"), vh_oneByteName("Y"), vh_oneByteName("P"), vh_oneByteName("Q"), vh_oneByteName("R")
	v.Assume(x < y && p < q)
	return &vh_treeFS{ents: []*vh_treeEnt{
		{path: x, isDir: true},
		{path: x + "/" + p, data: []byte("p")},
		{path: x + "/" + q, isDir: true},
		{path: x + "/" + q + "/" + r, data: []byte("r")},
		{path: y, data: []byte("y")},
	}}
}

// refSelect: which entries a filter configuration selects (kept entries plus their ancestors).
func vh_refSelect(t *vh_treeFS, inc, exc []vh_refPattern, incr bool) []bool {
	n := len(t.ents)
	keep := make([]bool, n)
	incInfo, excInfo := map[string][]bool{}, map[string][]bool{}
	for i, e := range t.ents {
		included, excluded := true, false
		if incr {
			par := vh_specParent(e.path)
			var pi, pe []bool
			if par != "" {
				pi, pe = incInfo[par], excInfo[par]
			}
			if len(inc) > 0 {
				included, incInfo[e.path] = vh_refMatchIncr(inc, e.path, pi)
			}
			if len(exc) > 0 {
				excluded, excInfo[e.path] = vh_refMatchIncr(exc, e.path, pe)
			}
		} else {
			if len(inc) > 0 {
				included = vh_refMatchNaive(inc, e.path)
			}
			if len(exc) > 0 {
				excluded = vh_refMatchNaive(exc, e.path)
			}
		}
		keep[i] = included && !excluded
	}
	sel := make([]bool, n)
	for i, e := range t.ents {
		sel[i] = keep[i]
		for j, o := range t.ents {
			if keep[j] && vh_isUnder(o.path, e.path) {
				sel[i] = true
			}
		}
	}
	return sel
}

// VH_C10_filter: a filtered walk reports exactly the entries the unpruned reference evaluation
// selects, in walk order, each once, directories before their contents.
func VH_C10_filter() {
	t := vh_symTree10()
	incS, excS := vh_choosePatterns("inc", v.Param("NI", 1)), vh_choosePatterns("exc", v.Param("NE", 1))
	var inc, exc []vh_refPattern
	for _, p := range incS {
		inc = append(inc, vh_parseRef(p))
	}
	for _, p := range excS {
		exc = append(exc, vh_parseRef(p))
	}
	ffs, err := NewFilterFS(t, &FilterOpt{IncludePatterns: incS, ExcludePatterns: excS})
	v.Assert(err == nil, "NewFilterFS accepts the pattern lists")
	if err != nil {
		return
	}
	got := make([]bool, len(t.ents))
	dup, order := false, true
	last := ""
	err = ffs.Walk(context.Background(), "", func(p string, d gofs.DirEntry, err error) error {
		if err != nil {
			return err
		}
		for i, e := range t.ents {
			if e.path == p {
				if got[i] {
					dup = true
				}
				got[i] = true
			}
		}
		if last != "" && vh_specCmp(last, p) >= 0 {
			order = false
		}
		last = p
		return nil
	})
	v.Assert(err == nil, "filtered walk succeeds")
	v.Assert(!dup, "no entry is reported twice")
	v.Assert(order, "entries are reported in walk order, directories before their contents")
	naive, incr := vh_refSelect(t, inc, exc, false), vh_refSelect(t, inc, exc, true)
	eqNaive, eqIncr, refsDiffer := true, true, false
	for i := range got {
		eqNaive = v.And(eqNaive, got[i] == naive[i])
		eqIncr = v.And(eqIncr, got[i] == incr[i])
		refsDiffer = v.Or(refsDiffer, naive[i] != incr[i])
	}
	if refsDiffer {
		v.Cover("incremental-class")
		v.Assert(v.Or(eqNaive, eqIncr), "inside the class where parent-threaded and from-scratch evaluation differ, the walk equals one of the two references")
		v.Assert(eqNaive, "filtered walk equals the naive reference filter [class: negated pattern on an ancestor skipped by the incremental matcher]")
	} else {
		v.Cover("agreeing-class")
		v.Assert(eqNaive, "filtered walk equals the naive reference filter")
	}
}
