package fsutil

import (
	"context"
	"hash"
	"os"

	digest "github.com/opencontainers/go-digest"
	"github.com/tonistiigi/fsutil/types"
	"github.com/tonistiigi/fsutil/zz_verif/m"
	"github.com/tonistiigi/fsutil/zz_verif/v"
)

// recHash is a recording hash sink: its "sum" is everything written to it.
type vh_recHash struct{ b []byte }

func (r *vh_recHash) Write(p []byte) (int, error) { r.b = append(r.b, p...); return len(p), nil }
func (r *vh_recHash) Sum(b []byte) []byte         { return append(b, r.b...) }
func (r *vh_recHash) Reset()                      { r.b = nil }
func (r *vh_recHash) Size() int                   { return len(r.b) }
func (r *vh_recHash) BlockSize() int              { return 1 }

var _ hash.Hash = &vh_recHash{}

func vh_headerOf(st *types.Stat) []byte {
	return []byte("H|" + st.Path + "|" + st.Linkname + "|" + string([]byte{byte(st.Mode >> 24), byte(st.Mode >> 16), byte(st.Mode >> 8), byte(st.Mode),
		byte(st.Gid >> 24), byte(st.Gid >> 16), byte(st.Gid >> 8), byte(st.Gid)}) + "|")
}

type vh_noteEvent struct {
	kind ChangeKind
	path string
	stat *types.Stat
	dgst digest.Digest
}

// VH_C05_notify: the change callback of a real Receive (model file system, reference sender as
// in C07) mirrors what changed: one upsert per source path whose identity or bytes differ from
// the prior destination, carrying the stat as sent and a digest over header ++ stored bytes; none
// for unchanged paths; one delete per removed top-most path.
func VH_C05_notify() {
	maxb := v.Param("MAXB", 1)
	m.Reset()
	dest := m.Root("dest")
	src := vh_symSource(maxb)
	// FILTER=1: the receiver rewrites the group of every entry (as callers normalising ownership
	// do). The disk then carries the rewritten group, notifications and digests the stat as sent.
	useFilter := v.Param("FILTER", 0) != 0
	const filterGid = 42
	prior := vh_symPriorDestGid(dest, src, useFilter, filterGid)
	oldSnap := m.Snapshot(dest)
	recs := map[string]*vh_recHash{}
	var events []vh_noteEvent
	opt := ReceiveOpt{
		ContentHasher: func(st *types.Stat) (hash.Hash, error) {
			r := &vh_recHash{}
			r.Write(vh_headerOf(st))
			recs[st.Path] = r
			return r, nil
		},
		Filter: nil,
		NotifyHashed: func(kind ChangeKind, p string, fi os.FileInfo, err error) error {
			ev := vh_noteEvent{kind: kind, path: p}
			if fi != nil {
				ev.stat, _ = fi.Sys().(*types.Stat)
				if d, ok := fi.(interface{ Digest() digest.Digest }); ok {
					ev.dgst = d.Digest()
				}
			}
			events = append(events, ev)
			return nil
		},
	}
	if useFilter {
		opt.Filter = func(p string, st *types.Stat) bool {
			st.Gid = filterGid
			return true
		}
	}
	ctx := context.Background()
	rcv, snd := vh_newStreamPair(ctx, 256)
	var recvErr error
	done := make(chan struct{})
	go func() {
		recvErr = Receive(ctx, rcv, dest, opt)
		close(done)
	}()
	for _, e := range src {
		snd.SendMsg(&types.Packet{Type: types.PACKET_STAT, Stat: e.stat.Clone()})
	}
	snd.SendMsg(&types.Packet{Type: types.PACKET_STAT})
	for fin := false; !fin; {
		var p types.Packet
		if err := snd.RecvMsg(&p); err != nil {
			v.Assert(false, "receiver closed the stream before FIN")
			return
		}
		switch p.Type {
		case types.PACKET_REQ:
			if int(p.ID) >= len(src) {
				v.Assert(false, "requested id was announced")
				return
			}
			data := src[p.ID].data
			for len(data) > 0 {
				n := 1 + v.Choose("chunk", len(data))
				snd.SendMsg(&types.Packet{Type: types.PACKET_DATA, ID: p.ID, Data: data[:n]})
				data = data[n:]
			}
			snd.SendMsg(&types.Packet{Type: types.PACKET_DATA, ID: p.ID})
		case types.PACKET_FIN:
			fin = true
		case types.PACKET_ERR:
			v.Assert(false, "receiver reported an error on a legal stream")
			return
		}
	}
	snd.SendMsg(&types.Packet{Type: types.PACKET_FIN})
	snd.CloseSend()
	<-done
	v.Assert(recvErr == nil, "Receive returns success on a legal stream")
	newSnap := m.Snapshot(dest)

	for _, e := range src {
		p := e.stat.Path
		n := 0
		var ev vh_noteEvent
		for _, x := range events {
			if x.path == p && x.kind != ChangeKindDelete {
				n++
				ev = x
			}
		}
		if prior[p] == "same" {
			v.Cover("unchanged")
			v.Assert(n == 0, "an unchanged existing path is not reported")
			continue
		}
		isDir := os.FileMode(e.stat.Mode).IsDir()
		if isDir && prior[p] == "other-dir" {
			// the old directory is (0700, 7, 7): the identity of a directory is mode, uid, gid
			effGid := e.stat.Gid
			if useFilter {
				effGid = filterGid
			}
			if v.And(vh_goModeToUnixPerm(e.stat.Mode) == 0700, e.stat.Uid == 7, effGid == 7) {
				v.Cover("dir-unchanged")
				v.Assert(n == 0, "an unchanged existing directory is not reported")
				continue
			}
			v.Cover("dir-metadata-change")
			v.Assert(n == 1, "a directory whose metadata changed in place is reported exactly once")
		} else {
			v.Cover("changed")
			v.Assert(n == 1, "a path whose identity or bytes changed is reported exactly once")
		}
		if n != 1 {
			continue
		}
		v.Assert(ev.stat != nil && vh_specIdentity(ev.stat, e.stat) && ev.stat.Path == p, "the event carries the new metadata as sent")
		// ... and that metadata is what the destination now holds (applying the events to a model of the
		// old destination yields the new destination)
		if ev.stat != nil {
			for i := range newSnap {
				d := &newSnap[i]
				if d.Path != p {
					continue
				}
				wantGid := ev.stat.Gid
				if useFilter {
					wantGid = filterGid
				}
				v.Assert(d.Uid == ev.stat.Uid && d.Gid == wantGid, "the stored owner is the reported one")
				if d.Kind != m.KSymlink {
					v.Assert(d.Perm == vh_goModeToUnixPerm(ev.stat.Mode), "the stored mode is the reported one")
				}
				if d.Kind != m.KDir {
					v.Assert(d.Mtime == ev.stat.ModTime, "the stored mtime of a non-directory is the reported one")
				}
			}
		}
		// digest: header as sent followed by exactly the bytes now stored (header only without content)
		want := vh_headerOf(e.stat)
		if os.FileMode(e.stat.Mode)&os.ModeType == 0 && e.stat.Linkname == "" {
			for i := range newSnap {
				if newSnap[i].Path == p {
					want = append(want, newSnap[i].Data...)
				}
			}
		}
		r := recs[p]
		v.Assert(r != nil && string(r.b) == string(want), "the hash was fed the header followed by exactly the stored bytes")
		if r != nil {
			v.Assert(ev.dgst == digest.NewDigest(digest.SHA256, r), "the digest attached to the event is the digest of that hash")
		}
	}
	// deletes
	for i := range oldSnap {
		q := oldSnap[i].Path
		inSrc := false
		for _, e := range src {
			if e.stat.Path == q {
				inSrc = true
			}
		}
		if inSrc {
			continue
		}
		n := 0
		for _, x := range events {
			if x.path == q && x.kind == ChangeKindDelete {
				n++
			}
		}
		// top-most: no ancestor of q was removed or replaced by a non-directory
		top := true
		for j := range oldSnap {
			a := oldSnap[j].Path
			if !vh_isUnder(q, a) {
				continue
			}
			stillDir := false
			for _, e := range src {
				if e.stat.Path == a && os.FileMode(e.stat.Mode).IsDir() {
					stillDir = true
				}
			}
			if !stillDir {
				top = false
			}
		}
		if top {
			v.Cover("delete")
			v.Assert(n == 1, "a removed top-most path is reported as deleted exactly once")
		} else {
			v.Assert(n <= 1, "a removed path below a removed or replaced directory is reported at most once")
		}
	}
	for _, x := range events {
		known := false
		for _, e := range src {
			if e.stat.Path == x.path {
				known = true
			}
		}
		for i := range oldSnap {
			if oldSnap[i].Path == x.path {
				known = true
			}
		}
		v.Assert(known, "no event names a path that is neither in the source nor in the old destination")
	}
	v.Cover("done")
}
