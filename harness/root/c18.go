package fsutil

import (
	"github.com/tonistiigi/fsutil/zz_verif/v"
)

func vh_specInside(t, s string) bool { // t is strictly inside s
	return len(t) > len(s)+1 && t[:len(s)] == s && t[len(s)] == '/'
}

// plausiblePath: what FollowLinks can hand to dedupePaths: "." or a relative path without empty
// and without "." components (results of filepath.Join(".", ...)).
func vh_plausiblePath(s string) bool {
	if s == "." {
		return true
	}
	if len(s) == 0 {
		return false
	}
	start := 0
	for i := 0; i <= len(s); i++ {
		if i == len(s) || s[i] == '/' {
			c := s[start:i]
			if c == "" || c == "." {
				return false
			}
			start = i + 1
		}
	}
	return true
}

// VH_C18_dedupe: on every strictly ascending (bytewise, as sort.Strings leaves it) list of K
// plausible paths, dedupePaths returns nil iff "." is present, else a sub-list that is pairwise
// non-nested and covers every input (each input equals or lies inside some output).
func VH_C18_dedupe() {
	k, n := v.Param("K", 3), v.Param("N", 3)
	in := make([]string, k)
	hasDot := false
	for i := range in {
		in[i] = v.String("s", v.Choose("len", n)+1)
		v.Assume(vh_plausiblePath(in[i]))
		if i > 0 {
			v.Assume(in[i-1] < in[i])
		}
		if in[i] == "." {
			hasDot = true
		}
	}
	cp := append([]string(nil), in...)
	out := dedupePaths(cp)
	v.Observe("n_out", len(out))
	if hasDot {
		v.Cover("dot")
		v.Assert(out == nil, "dedupePaths returns nil when the root is in the list")
		return
	}
	v.Cover("nodot")
	// sub-list in order
	j := 0
	for _, s := range in {
		if j < len(out) && out[j] == s {
			j++
		}
	}
	v.Assert(j == len(out), "dedupePaths output is a sub-list of its input")
	for a := range out {
		for b := range out {
			if a != b {
				v.Assert(!vh_specInside(out[a], out[b]), "no output element lies inside another output element")
			}
		}
	}
	for _, s := range in {
		covered := false
		for _, o := range out {
			if s == o || vh_specInside(s, o) {
				covered = true
			}
		}
		v.Assert(covered, "every input path equals or lies inside some output element")
	}
}
