package fsutil

import (
	"context"
	"os"

	"github.com/tonistiigi/fsutil/zz_verif/m"
	"github.com/tonistiigi/fsutil/zz_verif/v"
)

type vh_syncResult struct {
	sendErr, recvErr error
	reqs             []uint32
	events           []vh_noteEvent
}

func vh_syncOnce(srcRoot, dest string, differ DiffType) vh_syncResult {
	var r vh_syncResult
	fs, err := NewFS(srcRoot)
	if err != nil {
		r.sendErr = err
		return r
	}
	ctx := context.Background()
	s1, s2 := vh_newStreamPair(ctx, 512)
	sendDone, recvDone := make(chan struct{}), make(chan struct{})
	go func() {
		r.sendErr = Send(ctx, s1, fs, nil)
		s1.CloseSend()
		close(sendDone)
	}()
	go func() {
		r.recvErr = Receive(ctx, s2, dest, ReceiveOpt{Differ: differ,
			ContentHasher: nil,
			NotifyHashed:  nil,
		})
		close(recvDone)
	}()
	<-recvDone
	<-sendDone
	r.reqs = s2.reqs
	return r
}

// VH_C02_resync: two consecutive transfers on the model file system. After a first successful
// transfer, a second transfer of the unchanged source sends no content request and leaves every
// inode in place; after one solver-chosen mutation of one source entry (rewrite with the same or
// another size, touch, chmod, chown, delete, type swap) exactly the entries whose identity changed
// are requested / rewritten and every other entry keeps its inode and bytes; with differencing
// disabled every regular file is requested again.
func VH_C02_resync() {
	m.Reset()
	src, dest := m.Root("src"), m.Root("dest")
	// setuid/setgid/sticky on the file e and on the directory d are symbolic: an unchanged entry
	// with special bits is as unchanged as any other
	ePerm := 0600 | (v.U32("special-e") & 07000)
	dPerm := 0755 | (v.U32("special-d") & 01000)
	m.MkDir(src+"/d", dPerm, 1, 1, 5)
	m.MkFile(src+"/d/f", v.Bytes("f", 1), 0644, 1, 1, vh_mtimes()[0])
	m.MkFile(src+"/e", v.Bytes("e", 1), ePerm, 2, 2, vh_mtimes()[0])
	m.MkSymlink(src+"/l", "e", 1, 1, vh_mtimes()[0])
	m.MkNode(src+"/n", m.KChar, 0600, 0x10012c, 1, 1, vh_mtimes()[0]) // a character device 1:300 (minor beyond 8 bits)
	m.SetMtime(src+"/d", vh_mtimes()[1])
	nFiles := 2
	if v.Bool("listing-name-file") {
		// an ordinary file that happens to carry the name of the metadata-only listing
		m.MkFile(src+"/"+metadataPath, []byte("x"), 0644, 1, 1, vh_mtimes()[0])
		nFiles++
		v.Cover("listing-name-file")
	}
	first := vh_syncOnce(src, dest, DiffMetadata)
	v.Assert(first.sendErr == nil && first.recvErr == nil, "the first transfer succeeds")
	v.Assert(len(first.reqs) == nFiles, "the first transfer requests every regular file")
	before := m.Snapshot(dest)
	dataOf := func(p string) []byte {
		for i := range before {
			if before[i].Path == p {
				return before[i].Data
			}
		}
		return nil
	}

	mutation := v.Choose("mutation", 14)
	changed := map[string]bool{}
	switch mutation {
	case 0: // unchanged
	case 1: // rewrite, same size, new mtime
		os.Remove(src + "/e")
		m.MkFile(src+"/e", v.Bytes("e2", 1), ePerm, 2, 2, vh_mtimes()[1])
		changed["e"] = true
	case 2: // rewrite with another size, same mtime
		os.Remove(src + "/e")
		m.MkFile(src+"/e", v.Bytes("e2", 2), ePerm, 2, 2, vh_mtimes()[0])
		changed["e"] = true
	case 3: // touch
		m.SetMtime(src+"/e", vh_mtimes()[1])
		changed["e"] = true
	case 4: // chmod (symbolic new mode)
		nm := v.U32("newmode") & 07777
		v.Assume(nm != ePerm)
		os.Remove(src + "/e")
		m.MkFile(src+"/e", dataOf("e"), nm, 2, 2, vh_mtimes()[0])
		changed["e"] = true
	case 5: // chown
		nu := v.U32("newuid")
		v.Assume(nu != 2)
		os.Remove(src + "/e")
		m.MkFile(src+"/e", dataOf("e"), ePerm, nu, 2, vh_mtimes()[0])
		changed["e"] = true
	case 6: // delete
		os.Remove(src + "/e")
	case 7: // file becomes a directory
		os.Remove(src + "/e")
		m.MkDir(src+"/e", 0755, 2, 2, 5)
		changed["e"] = true
	case 8: // chmod of a directory
		os.Remove(src + "/d/f")
		os.Remove(src + "/d")
		m.MkDir(src+"/d", 0700, 1, 1, 5)
		m.MkFile(src+"/d/f", dataOf("d/f"), 0644, 1, 1, vh_mtimes()[0])
		m.SetMtime(src+"/d", vh_mtimes()[1])
		changed["d"] = true
	case 9: // touch of a symlink
		os.Remove(src + "/l")
		m.MkSymlink(src+"/l", "e", 1, 1, vh_mtimes()[1])
		changed["l"] = true
	case 10: // symlink retargeted (same length)
		os.Remove(src + "/l")
		m.MkSymlink(src+"/l", "d", 1, 1, vh_mtimes()[0])
		changed["l"] = true
	case 11: // nested file rewritten, same size, new mtime
		os.Remove(src + "/d/f")
		m.MkFile(src+"/d/f", v.Bytes("f2", 1), 0644, 1, 1, vh_mtimes()[1])
		m.SetMtime(src+"/d", vh_mtimes()[1])
		changed["d/f"] = true
	case 12: // a new file appears
		m.MkFile(src+"/zz", v.Bytes("zz", 1), 0644, 1, 1, vh_mtimes()[0])
		changed["zz"] = true
	case 13: // chgrp (symbolic new gid) of the nested file
		ng := v.U32("newgid")
		v.Assume(ng != 1)
		os.Remove(src + "/d/f")
		m.MkFile(src+"/d/f", dataOf("d/f"), 0644, 1, ng, vh_mtimes()[0])
		m.SetMtime(src+"/d", vh_mtimes()[1])
		changed["d/f"] = true
	}
	differ := DiffMetadata
	if v.Param("NONE", 0) != 0 {
		differ = DiffNone
	}
	second := vh_syncOnce(src, dest, differ)
	v.Assert(second.sendErr == nil && second.recvErr == nil, "the second transfer succeeds")
	after := m.Snapshot(dest)
	srcSnap := m.Snapshot(src)
	// which regular files must be requested
	wantReq := 0
	for _, e := range srcSnap {
		if e.Kind == m.KFile && (differ == DiffNone || changed[e.Path]) {
			wantReq++
		}
	}
	if differ == DiffNone {
		v.Cover("differ-none")
		v.Assert(len(second.reqs) == wantReq, "with differencing disabled every regular file is requested again")
	} else {
		v.Cover("differ-metadata")
		v.Assert(len(second.reqs) == wantReq, "content is requested for exactly the regular files whose identity changed")
		if mutation == 0 {
			v.Cover("unchanged")
			v.Assert(len(second.reqs) == 0, "a re-sync of an unchanged source sends zero content requests")
		}
		for i := range before {
			b := &before[i]
			if changed[b.Path] || (mutation == 6 && b.Path == "e") {
				continue
			}
			var a *m.Entry
			for j := range after {
				if after[j].Path == b.Path {
					a = &after[j]
				}
			}
			if a == nil {
				v.Assert(false, "an unchanged entry stays in the destination")
				continue
			}
			v.Assert(a.Ino == b.Ino && string(a.Data) == string(b.Data), "every entry whose identity did not change keeps its inode and bytes")
		}
	}
	v.Assert(len(after) == len(srcSnap), "after the second transfer the destination has the paths of the source")
	for i := range srcSnap {
		if i >= len(after) {
			break
		}
		a, b := &after[i], &srcSnap[i]
		same := v.And(a.Path == b.Path, a.Kind == b.Kind, a.Perm == b.Perm, a.Uid == b.Uid, a.Gid == b.Gid, string(a.Data) == string(b.Data), a.Target == b.Target)
		if b.Kind != m.KDir {
			same = v.And(same, a.Mtime == b.Mtime)
		}
		v.Assert(same, "after the second transfer every destination entry equals its source entry (a changed identity is always re-transferred)")
	}
}
