package fsutil

import (
	"github.com/tonistiigi/fsutil/zz_verif/m"
	"github.com/tonistiigi/fsutil/zz_verif/v"
)

func vh_twoDigits(i int) string { return string([]byte{byte('0' + i/10), byte('0' + i%10)}) }

// VH_C18_wildcard: one wildcard request in the last component matching N symlink chains
// links/aNN -> ../mid/mNN -> ../data/fNN (N x 2 links followed, more than the 40-hop bound of a
// single resolution): every chain is resolved independently, so every final location and every
// intermediate link is covered by the result, which stays sorted and non-nested.
func VH_C18_wildcard() {
	n := v.Param("N", 21)
	m.Reset()
	root := m.Root("src")
	m.MkDir(root+"/links", 0755, 0, 0, 5)
	m.MkDir(root+"/mid", 0755, 0, 0, 5)
	m.MkDir(root+"/data", 0755, 0, 0, 5)
	for i := 0; i < n; i++ {
		id := vh_twoDigits(i)
		m.MkFile(root+"/data/f"+id, []byte("x"), 0644, 0, 0, 5)
		m.MkSymlink(root+"/mid/m"+id, "../data/f"+id, 0, 0, 5)
		m.MkSymlink(root+"/links/a"+id, "../mid/m"+id, 0, 0, 5)
	}
	dangling := v.Bool("one-dangling")
	if dangling {
		m.MkSymlink(root+"/links/azz", "../mid/none", 0, 0, 5)
	}
	fs, err := NewFS(root)
	if err != nil {
		return
	}
	res, err := FollowLinks(fs, []string{"links/a*"})
	v.Assert(err == nil, "FollowLinks with a wildcard request succeeds")
	for i := range res {
		if i > 0 {
			v.Assert(res[i-1] < res[i], "the result is sorted")
		}
		for j := range res {
			if i != j {
				v.Assert(!vh_specInside(res[i], res[j]), "no element of the result is inside another")
			}
		}
	}
	for i := 0; i < n; i++ {
		id := vh_twoDigits(i)
		v.Assert(vh_coveredBy(res, "data/f"+id), "the final location of every matched chain is covered")
		v.Assert(vh_coveredBy(res, "mid/m"+id), "every traversed intermediate link is covered")
	}
	v.Cover("done")
}
