package fsutil

import (
	"context"
	gofs "io/fs"
	"os"

	"github.com/tonistiigi/fsutil/types"
	"github.com/tonistiigi/fsutil/zz_verif/v"
)

// VH_C09_subdir: a composite file system of named sub-roots: each sub-walk is reported prefixed
// with the name of its sub-root (hard-link names included, absolute symlink targets re-rooted under
// the sub-root, relative ones untouched), after one entry for the sub-root itself; the whole walk is
// in strictly ascending protocol order.
func VH_C09_subdir() {
	n1, n2 := v.String("n1", 1), v.String("n2", 1)
	v.Assume(n1[0] != '/' && n1[0] != 0 && n1[0] != '.' && n2[0] != '/' && n2[0] != 0 && n2[0] != '.' && n1 != n2)
	mkInner := func(tag string) *vh_memFS {
		fs := &vh_memFS{walkErrAt: -1}
		fs.entries = append(fs.entries, &vh_memEntry{stat: &types.Stat{Path: "f", Mode: 0644, Size: 1}, data: v.Bytes(tag+"-f", 1)})
		switch v.Choose(tag+"-second", 4) {
		case 1:
			fs.entries = append(fs.entries, &vh_memEntry{stat: &types.Stat{Path: "g", Mode: 0644, Linkname: "f"}}) // hard link to f
		case 2:
			fs.entries = append(fs.entries, &vh_memEntry{stat: &types.Stat{Path: "g", Mode: uint32(os.ModeSymlink) | 0777, Linkname: "/abs/t"}})
		case 3:
			fs.entries = append(fs.entries, &vh_memEntry{stat: &types.Stat{Path: "g", Mode: uint32(os.ModeSymlink) | 0777, Linkname: "rel/t"}})
		}
		return fs
	}
	in1, in2 := mkInner("a"), mkInner("b")
	dirs := []Dir{
		{Stat: &types.Stat{Path: n1, Mode: uint32(os.ModeDir) | 0755}, FS: in1},
		{Stat: &types.Stat{Path: n2, Mode: uint32(os.ModeDir) | 0755}, FS: in2},
	}
	fs, err := SubDirFS(dirs)
	v.Assert(err == nil, "SubDirFS accepts distinct single-component names")
	if err != nil {
		return
	}
	var got []*types.Stat
	err = fs.Walk(context.Background(), "", func(p string, d gofs.DirEntry, err error) error {
		if err != nil {
			return err
		}
		fi, _ := d.Info()
		st := fi.Sys().(*types.Stat)
		v.Assert(st.Path == p, "the stat carries the reported path")
		got = append(got, st)
		return nil
	})
	v.Assert(err == nil, "walk of the composite file system succeeds")
	// expected: for each sub-root in ascending name order: the root entry, then its entries prefixed
	lo, hi, inLo, inHi := n1, n2, in1, in2
	if n2 < n1 {
		lo, hi, inLo, inHi = n2, n1, in2, in1
	}
	var want []*types.Stat
	for _, pr := range []struct {
		name string
		fs   *vh_memFS
	}{{lo, inLo}, {hi, inHi}} {
		want = append(want, &types.Stat{Path: pr.name, Mode: uint32(os.ModeDir) | 0755})
		for _, e := range pr.fs.entries {
			w := &types.Stat{Path: pr.name + "/" + e.stat.Path, Mode: e.stat.Mode, Linkname: e.stat.Linkname}
			if e.stat.Linkname != "" {
				if os.FileMode(e.stat.Mode)&os.ModeSymlink != 0 {
					if e.stat.Linkname[0] == '/' {
						w.Linkname = "/" + pr.name + e.stat.Linkname
						v.Cover("absolute-symlink")
					}
				} else {
					w.Linkname = pr.name + "/" + e.stat.Linkname
					v.Cover("hardlink")
				}
			}
			want = append(want, w)
		}
	}
	v.Assert(len(got) == len(want), "one entry per sub-root plus its prefixed contents")
	for i := range got {
		if i >= len(want) {
			break
		}
		v.Assert(got[i].Path == want[i].Path && got[i].Mode == want[i].Mode, "each sub-walk is reported prefixed with the name of its sub-root")
		v.Assert(got[i].Linkname == want[i].Linkname, "hard-link names are prefixed and absolute symlink targets re-rooted")
		if i > 0 {
			v.Assert(vh_specCmp(got[i-1].Path, got[i].Path) < 0, "the composite walk is in ascending protocol order")
		}
	}
	v.Cover("done")
}
