package fsutil

import (
	"os"

	"github.com/tonistiigi/fsutil/types"
	"github.com/tonistiigi/fsutil/zz_verif/v"
)

// specCmp is the component-wise path order: compare component by component, bytewise; a path
// that is a proper prefix (at a component boundary) of another sorts first.
func specCmp(p, q string) int {
	i, j := 0, 0
	for {
		// next components
		pe, qe := i, j
		for pe < len(p) && p[pe] != '/' {
			pe++
		}
		for qe < len(q) && q[qe] != '/' {
			qe++
		}
		a, b := p[i:pe], q[j:qe]
		if a != b {
			if a < b {
				return -1
			}
			return 1
		}
		pDone, qDone := pe >= len(p), qe >= len(q)
		if pDone && qDone {
			return 0
		}
		if pDone {
			return -1
		}
		if qDone {
			return 1
		}
		i, j = pe+1, qe+1
	}
}

func sign(x int) int {
	if x < 0 {
		return -1
	}
	if x > 0 {
		return 1
	}
	return 0
}

// VH_C12_order: ComparePath agrees in sign with the component-wise order for all byte strings of
// lengths (LP, LQ).
func VH_C12_order() {
	lp, lq := v.Param("LP", 2), v.Param("LQ", 2)
	p, q := v.String("p", lp), v.String("q", lq)
	got := sign(ComparePath(p, q))
	want := specCmp(p, q)
	v.Observe("got", got)
	v.Assert(got == want, "ComparePath sign equals component-wise order")
	v.Assert((got == 0) == (p == q), "ComparePath is zero exactly on equal paths")
	v.Assert(sign(ComparePath(q, p)) == -got, "ComparePath antisymmetric")
	v.Cover("done")
}

var _ = os.ModeDir
var _ = types.Stat{}
