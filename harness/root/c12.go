package fsutil

import (
	"os"

	"github.com/tonistiigi/fsutil/types"
	"github.com/tonistiigi/fsutil/zz_verif/v"
)

// ---- executable specification, written from the statement of C12 (independent of path/filepath)

// specCmp is the component-wise path order: compare component by component, bytewise; a path that
// ends at a component boundary of the other sorts first.
func vh_specCmp(p, q string) int {
	i, j := 0, 0
	for {
		pe, qe := i, j
		for pe < len(p) && p[pe] != '/' {
			pe++
		}
		for qe < len(q) && q[qe] != '/' {
			qe++
		}
		a, b := p[i:pe], q[j:qe]
		if a != b {
			if a < b {
				return -1
			}
			return 1
		}
		pDone, qDone := pe >= len(p), qe >= len(q)
		if pDone && qDone {
			return 0
		}
		if pDone {
			return -1
		}
		if qDone {
			return 1
		}
		i, j = pe+1, qe+1
	}
}

func vh_sign(x int) int {
	if x < 0 {
		return -1
	}
	if x > 0 {
		return 1
	}
	return 0
}

// specWellFormed: a clean relative path that is neither "." nor ".." nor starts with "../":
// non-empty, and every '/'-separated component is non-empty and neither "." nor "..".
func vh_specWellFormed(p string) bool {
	if len(p) == 0 {
		return false
	}
	start := 0
	for i := 0; i <= len(p); i++ {
		if i == len(p) || p[i] == '/' {
			c := p[start:i]
			if c == "" || c == "." || c == ".." {
				return false
			}
			start = i + 1
		}
	}
	return true
}

func vh_specParent(p string) string {
	for i := len(p) - 1; i >= 0; i-- {
		if p[i] == '/' {
			return p[:i]
		}
	}
	return ""
}

// specValidator is the reference acceptor of C12.
type vh_specValidator struct {
	any  bool
	last string
	dirs []string
}

func (s *vh_specValidator) accept(p string, isDir, isDelete bool) bool {
	if !vh_specWellFormed(p) {
		return false
	}
	if s.any && vh_specCmp(s.last, p) >= 0 {
		return false
	}
	par := vh_specParent(p)
	if par != "" {
		found := false
		for _, d := range s.dirs {
			if d == par {
				found = true
			}
		}
		if !found {
			return false
		}
	}
	s.any, s.last = true, p
	if isDir && !isDelete {
		s.dirs = append(s.dirs, p)
	}
	return true
}

func vh_statInfoFor(isDir bool) os.FileInfo {
	mode := uint32(0644)
	if isDir {
		mode = uint32(os.ModeDir) | 0755
	}
	return &StatInfo{&types.Stat{Mode: mode}}
}

// ---- harnesses

// VH_C12_order: ComparePath agrees in sign with the component-wise order, is zero exactly on equal
// paths and antisymmetric, for all byte strings of lengths (LP, LQ).
func VH_C12_order() {
	lp, lq := v.Param("LP", 2), v.Param("LQ", 2)
	p, q := v.String("p", lp), v.String("q", lq)
	got := vh_sign(ComparePath(p, q))
	want := vh_specCmp(p, q)
	v.Observe("got", got)
	v.Assert(got == want, "ComparePath sign equals component-wise order")
	v.Assert((got == 0) == (p == q), "ComparePath is zero exactly on equal paths")
	v.Assert(vh_sign(ComparePath(q, p)) == -got, "ComparePath antisymmetric")
	v.Cover("done")
}

// VH_C12_trans: transitivity of the real comparison over triples.
func VH_C12_trans() {
	n := v.Param("N", 2)
	a, b, c := v.String("a", v.Choose("la", n+1)), v.String("b", v.Choose("lb", n+1)), v.String("c", v.Choose("lc", n+1))
	ab, bc, ac := ComparePath(a, b), ComparePath(b, c), ComparePath(a, c)
	v.Observe("ab", vh_sign(ab))
	if ab < 0 && bc < 0 {
		v.Cover("chain")
		v.Assert(ac < 0, "ComparePath transitive")
	}
	if ab == 0 {
		v.Assert(vh_sign(bc) == vh_sign(ac), "ComparePath respects equality")
	}
}

// VH_C12_seq: for every sequence of K changes (path bytes of length <= N, kind in {dir, file,
// delete}), the real validator accepts element i iff the reference acceptor does, up to and
// including the first rejected element.
func VH_C12_seq() {
	k, n := v.Param("K", 2), v.Param("N", 2)
	var val Validator
	var spec vh_specValidator
	for i := 0; i < k; i++ {
		p := v.String("p", v.Choose("len", n+1))
		isDir := v.Bool("dir")
		isDelete := v.Bool("del")
		kind := ChangeKindAdd
		if isDelete {
			kind = ChangeKindDelete
		}
		err := val.HandleChange(kind, p, vh_statInfoFor(isDir), nil)
		want := spec.accept(p, isDir, isDelete)
		v.Observe("accepted", err == nil)
		if want {
			v.Cover("spec-accepts")
		} else {
			v.Cover("spec-rejects")
		}
		if p == "." || p == ".." {
			v.Assert((err == nil) == want, "validator rejects the paths \".\" and \"..\"")
		} else {
			v.Assert((err == nil) == want, "validator accepts exactly what the reference acceptor accepts")
		}
		if err != nil || !want {
			return
		}
	}
	v.Cover("all-accepted")
}

// VH_C12_deep: the same differential check below a concrete chain of nested directories whose
// depth is a solver-chosen value (the validator's stack of open directories grows with depth, so
// depth-dependent bookkeeping is exercised at every depth up to MAXD): after the chain, K entries
// with a symbolic one-byte name each, placed in the deepest chain directory or in the directory
// accepted last, are accepted exactly when the reference acceptor accepts them.
func VH_C12_deep() {
	maxd, k := v.Param("MAXD", 12), v.Param("K", 3)
	depth := 1 + v.Choose("depth", maxd)
	var val Validator
	var spec vh_specValidator
	prefix := ""
	for i := 0; i < depth; i++ {
		if i > 0 {
			prefix += "/"
		}
		prefix += "d"
		err := val.HandleChange(ChangeKindAdd, prefix, vh_statInfoFor(true), nil)
		v.Assert(err == nil && spec.accept(prefix, true, false), "a chain of nested directories is accepted")
		if err != nil {
			return
		}
	}
	lastDir := prefix
	for i := 0; i < k; i++ {
		base := prefix
		if lastDir != prefix && v.Bool("below-last") {
			base = lastDir
		}
		p := base + "/" + v.String("name", 1)
		isDir := v.Bool("dir")
		err := val.HandleChange(ChangeKindAdd, p, vh_statInfoFor(isDir), nil)
		want := spec.accept(p, isDir, false)
		v.Observe("accepted", err == nil)
		if want {
			v.Cover("spec-accepts")
		} else {
			v.Cover("spec-rejects")
		}
		v.Assert((err == nil) == want, "validator accepts exactly what the reference acceptor accepts (deep tree)")
		if err != nil || !want {
			return
		}
		if isDir {
			lastDir = p
		}
	}
	v.Cover("all-accepted")
}
