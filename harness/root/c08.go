package fsutil

import (
	"context"
	"hash"
	"os"
	"sync"

	digest "github.com/opencontainers/go-digest"
	"github.com/tonistiigi/fsutil/types"
	"github.com/tonistiigi/fsutil/zz_verif/m"
	"github.com/tonistiigi/fsutil/zz_verif/v"
)

// VH_C08_schedules: one fixed transfer (real Send over a synthetic view whose files are read in
// one-byte fragments, real Receive on the model file system with a dirty prior destination) run
// under schedule exploration: before every communication, locking and goroutine-creating
// operation, and whenever the running goroutine blocks, which goroutine runs next is a
// solver-chosen value, within a delay bound (parameter SCHED, read by the engine). On every
// schedule inside the bound: both calls succeed, the destination equals the source view, the set of
// content requests and the set of change notifications with their digests are the expected ones,
// neither end ever has two SendMsg or two RecvMsg calls in flight on its stream, nothing
// deadlocks and no goroutine is left behind.
func VH_C08_schedules() {
	m.Reset()
	dest := m.Root("dest")
	nfiles := v.Param("FILES", 2)
	mk := func(p string, class int, data []byte) *vh_memEntry {
		return &vh_memEntry{stat: &types.Stat{Path: p, Mode: vh_modeFor(class, 0755), Uid: 1, Gid: 1, ModTime: vh_mtimes()[0], Size: int64(len(data))}, data: data}
	}
	view := &vh_memFS{walkErrAt: -1, readStep: 1, entries: []*vh_memEntry{
		mk("d", vh_clsDir, nil),
		mk("d/f", vh_clsFile, []byte("ab")),
	}}
	if nfiles >= 2 {
		view.entries = append(view.entries, mk("e", vh_clsFile, []byte("c")))
	}
	if v.Param("EMPTY", 0) != 0 {
		view.entries = append(view.entries, mk("e0", vh_clsFile, nil)) // an empty file: its only DATA packet is the terminator
	}
	if nfiles >= 3 {
		view.entries = append(view.entries, mk("g", vh_clsFile, []byte("xyz")))
	}
	// further (empty) directories keep the STAT stream going while the first requests come in
	for i := 0; i < int(v.Param("NDIRS", 0)); i++ {
		view.entries = append(view.entries, mk("h"+string(rune('0'+i)), vh_clsDir, nil))
	}
	// FAULT=1: the walk fails at the last entry, after files were announced (and possibly requested): the
	// sender reports the error while content may still be in flight
	fault := v.Param("FAULT", 0) != 0
	if fault {
		view.walkErrAt = len(view.entries) - 1
	}
	// dirty prior destination: an older "e" and a stale entry
	m.MkFile(dest+"/e", []byte("old"), 0600, 7, 7, 5)
	m.MkFile(dest+"/zz", []byte("z"), 0600, 7, 7, 5)

	recs := map[string]*vh_recHash{}
	type ev struct {
		kind ChangeKind
		dgst digest.Digest
	}
	events := map[string][]ev{}
	var cbMu sync.Mutex // the callbacks may be invoked from several goroutines
	opt := ReceiveOpt{
		ContentHasher: func(st *types.Stat) (hash.Hash, error) {
			r := &vh_recHash{}
			r.Write(vh_headerOf(st))
			cbMu.Lock()
			recs[st.Path] = r
			cbMu.Unlock()
			return r, nil
		},
		NotifyHashed: func(kind ChangeKind, p string, fi os.FileInfo, err error) error {
			cbMu.Lock()
			defer cbMu.Unlock()
			e := ev{kind: kind}
			if fi != nil {
				if d, ok := fi.(interface{ Digest() digest.Digest }); ok {
					e.dgst = d.Digest()
				}
			}
			events[p] = append(events[p], e)
			return nil
		},
	}
	ctx := context.Background()
	s1, s2 := vh_newStreamPair(ctx, int(v.Param("CAP", 1)))
	var sendErr, recvErr error
	sendDone, recvDone := make(chan struct{}), make(chan struct{})
	go func() {
		sendErr = Send(ctx, s1, view, nil)
		s1.CloseSend()
		close(sendDone)
	}()
	go func() {
		recvErr = Receive(ctx, s2, dest, opt)
		close(recvDone)
	}()
	if fault {
		// once one call has given up, the transport goes away (the peer may still be blocked in a
		// stream call and returns only then: C04)
		select {
		case <-recvDone:
		case <-sendDone:
		}
		s1.Break()
	}
	<-recvDone
	<-sendDone
	if fault {
		v.Assert(sendErr != nil && recvErr != nil, "a failing walk makes both calls fail on every schedule")
		v.Assert(!s1.overlap && !s2.overlap, "neither end ever has two SendMsg or two RecvMsg calls in flight on its stream")
		v.Assert(v.Goroutines() == 0, "no goroutine is left behind")
		v.Cover("done")
		return
	}
	v.Assert(sendErr == nil && recvErr == nil, "both calls succeed on every schedule")
	v.Assert(!s1.overlap && !s2.overlap, "neither end ever has two SendMsg or two RecvMsg calls in flight on its stream")
	v.Assert(v.Goroutines() == 0, "no goroutine is left behind")
	v.Assert(vh_destEqualsView(dest, view), "the final destination equals the source view on every schedule")
	// content requests: exactly the regular files, each once (as a set)
	want := map[uint32]bool{}
	for i, e := range view.entries {
		if os.FileMode(e.stat.Mode)&os.ModeType == 0 {
			want[uint32(i)] = true
		}
	}
	v.Assert(len(s2.reqs) == len(want), "the set of content requests is the same on every schedule")
	seen := map[uint32]bool{}
	for _, id := range s2.reqs {
		v.Assert(want[id] && !seen[id], "every regular file is requested exactly once")
		seen[id] = true
	}
	// notifications: one upsert per source path with the digest of header ++ stored bytes, one delete for the stale entry
	for _, e := range view.entries {
		evs := events[e.stat.Path]
		v.Assert(len(evs) == 1 && evs[0].kind != ChangeKindDelete, "every source path is notified exactly once on every schedule")
		if len(evs) == 1 {
			wantSink := append(vh_headerOf(e.stat), e.data...)
			r := recs[e.stat.Path]
			v.Assert(r != nil && string(r.b) == string(wantSink), "the hash of every entry was fed header ++ bytes on every schedule")
			if r != nil {
				v.Assert(evs[0].dgst == digest.NewDigest(digest.SHA256, r), "the attached digest is the digest of that hash")
			}
		}
	}
	v.Assert(len(events["zz"]) == 1 && events["zz"][0].kind == ChangeKindDelete, "the stale entry is reported deleted exactly once")
	v.Assert(len(events) == len(view.entries)+1, "no other path is notified")
	v.Cover("done")
}
