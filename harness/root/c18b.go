package fsutil

import (
	"github.com/tonistiigi/fsutil/zz_verif/m"
	"github.com/tonistiigi/fsutil/zz_verif/v"
)

var vh_linkTargets = []string{"d", "d/x", "/d", "/", "..", "../f", "L2", "L", "nope", "/d/x", "d/M", "S/../f"}
var vh_requests = []string{"L", "L/x", "d/M", "f", "L2", "nope/z", "d/M/x", "L/y", "d/x", "L/L", "L/L2"}

func vh_snapKind(snap []m.Entry, p string) (int, string, bool) {
	for i := range snap {
		if snap[i].Path == p {
			return snap[i].Kind, snap[i].Target, true
		}
	}
	return 0, "", false
}

func vh_splitComps(p string) []string {
	var out []string
	start := 0
	for i := 0; i <= len(p); i++ {
		if i == len(p) || p[i] == '/' {
			if i > start {
				out = append(out, p[start:i])
			}
			start = i + 1
		}
	}
	return out
}

// physResolve resolves a request against the snapshot the way a chroot-ed kernel would: component
// by component, symlinks expanded in place, ".." applied to the resolved location and clamped at the
// root, at most 40 hops. It returns the symlinks traversed, the final location ("" = root) and
// whether it exists; gaveUp reports the hop limit.
func vh_physResolve(snap []m.Entry, req string) (links []string, final string, exists bool, gaveUp bool) {
	comps := vh_splitComps(req)
	cur := ""
	hops := 0
	for i := 0; i < len(comps); i++ {
		c := comps[i]
		if c == "." {
			continue
		}
		if c == ".." {
			cur = vh_specParent(cur)
			continue
		}
		next := c
		if cur != "" {
			next = cur + "/" + c
		}
		kind, target, ok := vh_snapKind(snap, next)
		if !ok {
			return links, "", false, false
		}
		if kind == m.KSymlink {
			links = append(links, next)
			hops++
			if hops > 40 {
				return links, "", false, true
			}
			rest := append([]string(nil), comps[i+1:]...)
			comps = append(vh_splitComps(target), rest...)
			if len(target) > 0 && target[0] == '/' {
				cur = ""
			}
			i = -1
			continue
		}
		if kind != m.KDir && i != len(comps)-1 {
			return links, "", false, false // a file in the middle of the path
		}
		cur = next
	}
	return links, cur, true, false
}

func vh_coveredBy(res []string, p string) bool {
	for _, r := range res {
		if r == p || vh_specInside(p, r) {
			return true
		}
	}
	return false
}

// VH_C18_resolve: FollowLinks over an on-disk tree (model file system) with solver-chosen link
// targets (relative, absolute, beyond the root, chains, loops, dangling, links in intermediate
// components) and request lists: it terminates; the result is sorted and non-nested; it covers
// every symlink a physical chroot-style resolver traverses and the final location reached when it
// exists; it is empty when the root itself is reached.
func VH_C18_resolve() {
	nreq := v.Param("NREQ", 1)
	m.Reset()
	root := m.Root("src")
	m.MkDir(root+"/d", 0755, 0, 0, 5)
	m.MkFile(root+"/d/x", []byte("x"), 0644, 0, 0, 5)
	m.MkFile(root+"/d/y", []byte("y"), 0644, 0, 0, 5)
	m.MkFile(root+"/f", []byte("f"), 0644, 0, 0, 5)
	m.MkDir(root+"/d/s", 0755, 0, 0, 5)
	m.MkFile(root+"/d/f", []byte("df"), 0644, 0, 0, 5)
	m.MkSymlink(root+"/S", "d/s", 0, 0, 5)
	tL := vh_linkTargets[v.Choose("target-L", len(vh_linkTargets))]
	m.MkSymlink(root+"/L", tL, 0, 0, 5)
	tL2 := vh_linkTargets[v.Choose("target-L2", len(vh_linkTargets))]
	m.MkSymlink(root+"/L2", tL2, 0, 0, 5)
	tM := ""
	if v.Bool("has-d/M") {
		tM = vh_linkTargets[v.Choose("target-M", len(vh_linkTargets))]
		m.MkSymlink(root+"/d/M", tM, 0, 0, 5)
	}
	snap := m.Snapshot(root)
	fs, err := NewFS(root)
	if err != nil {
		return
	}
	reqs := make([]string, nreq)
	for i := range reqs {
		reqs[i] = vh_requests[v.Choose("req", len(vh_requests))]
	}
	res, err := FollowLinks(fs, reqs)
	v.Assert(err == nil, "FollowLinks succeeds (dangling and looping links are not errors)")
	if err != nil {
		return
	}
	for i := range res {
		if i > 0 {
			v.Assert(res[i-1] < res[i], "the result is sorted")
		}
		for j := range res {
			if i != j {
				v.Assert(!vh_specInside(res[i], res[j]), "no element of the result is inside another")
			}
		}
	}
	// a symlink met twice with different remainders within one call (known defect class A)
	seen := map[string]bool{}
	revisit := false
	lexDots := false // a traversed link target with ".." after a non-".." component (resolved lexically by FollowLinks)
	rootReached := false
	type need struct{ p string }
	var needs []string
	for _, rq := range reqs {
		links, final, exists, gaveUp := vh_physResolve(snap, rq)
		if gaveUp {
			v.Cover("hop-limit")
			continue // only termination is asserted for requests on which the reference itself gives up
		}
		for _, l := range links {
			if seen[l] {
				revisit = true // within one request or across requests
			}
			seen[l] = true
			needs = append(needs, l)
			_, tgt, _ := vh_snapKind(snap, l)
			past := false
			for _, c := range vh_splitComps(tgt) {
				if c == ".." && past {
					lexDots = true
				}
				if c != ".." {
					past = true
				}
			}
		}
		if exists {
			if final == "" {
				rootReached = true
			} else {
				needs = append(needs, final)
			}
		}
	}
	if lexDots {
		// known finding: link targets are cleaned lexically, the kernel resolves "c/.." through c
		v.Cover("lexical-dotdot")
		for _, p := range needs {
			v.Assert(vh_coveredBy(res, p), "the result covers every traversed symlink and the final location [class: link target with '..' after a symlink component, cleaned lexically]")
		}
		return
	}
	if rootReached {
		v.Cover("root-reached")
		if revisit {
			v.Assert(len(res) == 0, "the result is empty when the root itself is reached [class: symlink revisited with a different remainder]")
		} else {
			v.Assert(len(res) == 0, "the result is empty when the root itself is reached")
		}
		return
	}
	for _, p := range needs {
		v.Cover("needs")
		if revisit {
			v.Assert(vh_coveredBy(res, p), "the result covers every traversed symlink and the final location [class: symlink revisited with a different remainder]")
		} else {
			v.Assert(vh_coveredBy(res, p), "the result covers every traversed symlink and the final location")
		}
	}
}
