package fsutil

import (
	"archive/tar"
	"bytes"
	"context"
	"os"

	"github.com/tonistiigi/fsutil/types"
	"github.com/tonistiigi/fsutil/zz_verif/m"
	"github.com/tonistiigi/fsutil/zz_verif/v"
)

// VH_C17_tar: WriteTar over a synthetic view (d/, d/f, h = hard link to d/f, l = symlink,
// p = fifo or char device) with symbolic permission and special bits, uid, gid, device numbers, one
// optional xattr and symbolic file bytes. Members appear in walk order, directories with a trailing
// slash, regular files with exactly their bytes, links without payload and with size 0, each with the
// view's mode, uid/gid, mtime to the second, device numbers and SCHILY.xattr records; the writer's
// size bookkeeping is satisfied (the archive closes cleanly).
func VH_C17_tar() {
	maxb := v.Param("MAXB", 2)
	fs := &vh_memFS{walkErrAt: -1}
	// FileInfoHeader branches on each of setuid/setgid/sticky: to keep the product small the special
	// bits are symbolic on the entry selected by SPECIAL only, permission bits on all
	special := v.Param("SPECIAL", 1)
	add := func(p string, class int) *vh_memEntry {
		mask := uint32(0777)
		if len(fs.entries) == special {
			mask = vh_permMask
		}
		st := &types.Stat{Path: p, Mode: vh_modeFor(class, 0) | (v.U32("perm") & mask), Uid: v.U32("uid"), Gid: v.U32("gid"), ModTime: vh_chooseMtime("mtime")}
		v.Assume(v.And(st.Uid < 1<<21, st.Gid < 1<<21)) // USTAR octal field range; larger ids need PAX records (trusted encoder)
		e := &vh_memEntry{stat: st}
		fs.entries = append(fs.entries, e)
		return e
	}
	d := add("d", vh_clsDir)
	if v.Bool("xattr-d") {
		d.stat.Xattrs = map[string][]byte{"user.a": v.Bytes("xa", 1)} // another key than the file's
	}
	f := add("d/f", vh_clsFile)
	f.data = v.Bytes("data", v.Choose("size", maxb+1))
	f.stat.Size = int64(len(f.data))
	if v.Bool("xattr") {
		f.stat.Xattrs = map[string][]byte{"user.k": v.Bytes("xv", 1)}
	}
	if v.Bool("has-h") {
		h := add("h", vh_clsFile)
		h.stat.Linkname = "d/f"
		h.stat.Mode, h.stat.Uid, h.stat.Gid, h.stat.ModTime = f.stat.Mode, f.stat.Uid, f.stat.Gid, f.stat.ModTime
		h.stat.Size = f.stat.Size // mkstat leaves the size of the inode on link entries
		h.data = f.data
	}
	if v.Bool("has-l") {
		l := add("l", vh_clsSymlink)
		l.stat.Linkname = "d/f"
		l.stat.Size = 3
	}
	switch v.Choose("class-p", 4) {
	case 1:
		add("p", vh_clsFifo)
	case 2:
		p := add("p", vh_clsFile)
		p.stat.Mode = uint32(os.ModeDevice|os.ModeCharDevice) | (p.stat.Mode & vh_permMask)
		p.stat.Devmajor, p.stat.Devminor = int64(v.U32("major")&0xfff), int64(v.U32("minor")&0xff)
	case 3:
		p := add("p", vh_clsFile)
		p.stat.Mode = uint32(os.ModeDevice) | (p.stat.Mode & vh_permMask) // block device
		p.stat.Devmajor, p.stat.Devminor = int64(v.U32("major")&0xfff), int64(v.U32("minor")&0xff)
	}
	if last := fs.entries[len(fs.entries)-1]; last.stat.Path == "p" && v.Bool("has-q") {
		// a second name of the special file's inode: the walk reports it as a link entry naming the first
		q := add("q", vh_clsFile)
		q.stat.Linkname = "p"
		q.stat.Mode, q.stat.Uid, q.stat.Gid, q.stat.ModTime = last.stat.Mode, last.stat.Uid, last.stat.Gid, last.stat.ModTime
		q.stat.Devmajor, q.stat.Devminor = last.stat.Devmajor, last.stat.Devminor
		v.Cover("hardlinked-special")
	}
	var buf bytes.Buffer
	err := WriteTar(context.Background(), fs, &buf)
	v.Assert(err == nil, "WriteTar succeeds on a consistent view")
	if err != nil {
		return
	}
	members, closed := m.TarMembers(buf.Bytes())
	v.Assert(closed, "the archive is complete and well formed")
	v.Assert(len(members) == len(fs.entries), "one member per entry of the view")
	for i, e := range fs.entries {
		if i >= len(members) {
			break
		}
		mem := members[i]
		st := e.stat
		fm := os.FileMode(st.Mode)
		wantName := st.Path
		if fm.IsDir() {
			wantName += "/"
		}
		v.Assert(mem.Name == wantName, "members appear in walk order; directories are named with a trailing slash")
		var wantType byte = tar.TypeReg
		switch {
		case fm.IsDir():
			wantType = tar.TypeDir
		case fm&os.ModeSymlink != 0:
			wantType = tar.TypeSymlink
		case st.Linkname != "":
			wantType = tar.TypeLink
		case fm&os.ModeNamedPipe != 0:
			wantType = tar.TypeFifo
		case fm&os.ModeCharDevice != 0:
			wantType = tar.TypeChar
		case fm&os.ModeDevice != 0:
			wantType = tar.TypeBlock
		}
		v.Assert(mem.Typeflag == wantType, "member type matches the entry type")
		v.Assert(mem.Linkname == st.Linkname, "link members name their target")
		v.Assert(mem.Uid == int(st.Uid) && mem.Gid == int(st.Gid), "uid/gid are the view's")
		v.Assert(mem.Mode&07777 == int64(vh_goModeToUnixPerm(st.Mode)), "permission and setuid/setgid/sticky bits are the view's")
		v.Assert(mem.ModSec == st.ModTime/1000000000, "mtime is the view's, to the second")
		v.Assert(mem.Devmajor == st.Devmajor && mem.Devminor == st.Devminor, "device numbers are the view's")
		if wantType == tar.TypeReg {
			v.Cover("regular")
			v.Assert(mem.Size == int64(len(e.data)) && string(mem.Payload) == string(e.data), "a regular file member carries exactly the file's bytes")
		} else {
			v.Assert(len(mem.Payload) == 0, "directories, links and special files carry no payload")
			if wantType == tar.TypeLink || wantType == tar.TypeSymlink {
				v.Cover("link")
				v.Assert(mem.Size == 0, "link members have size 0")
			}
		}
		nx := 0
		for k, val := range st.Xattrs {
			nx++
			found := false
			for j, pk := range mem.PAXKeys {
				if pk == "SCHILY.xattr."+k && mem.PAXVals[j] == string(val) {
					found = true
				}
			}
			v.Cover("xattr")
			v.Assert(found, "xattrs are written as SCHILY.xattr records")
		}
		v.Assert(len(mem.PAXKeys) == nx, "no other extended records are added")
	}
	v.Cover("done")
}
