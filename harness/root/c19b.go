package fsutil

import (
	"context"
	"encoding/binary"
	"os"

	"github.com/tonistiigi/fsutil/types"
	"github.com/tonistiigi/fsutil/zz_verif/m"
	"github.com/tonistiigi/fsutil/zz_verif/v"
)

// VH_C19_metaonly: metadata-only receive on the model file system. The source announces
// [".fsutil-metadata"?, "d", "d/f"?, "d2"?, "d2/g"?, "e"?]; a solver-chosen selector picks entries. Afterwards the
// destination holds exactly the selected entries plus the ancestors they need, REQs went out only
// for selected regular files under the sender's ids, and the listing file decodes to one record per
// announced stat (own name excepted) in stream order.
func VH_C19_metaonly() {
	maxb := v.Param("MAXB", 1)
	m.Reset()
	dest := m.Root("dest")
	var src []*vh_srcEnt
	add := func(p string, class int) {
		// metadata is concrete here (symbolic metadata is covered by C07 and C20): the subject is
		// selection, ids and bytes
		st := &types.Stat{Path: p, Mode: vh_modeFor(class, 0755), Uid: uint32(len(src) + 1), ModTime: vh_mtimes()[len(src)%2]}
		e := &vh_srcEnt{stat: st}
		if class == vh_clsFile {
			e.data = v.Bytes("data", v.Choose("size", maxb+1))
			st.Size = int64(len(e.data))
		}
		src = append(src, e)
	}
	if v.Bool("has-listing-name") {
		// a source entry that happens to carry the listing's name: a regular file, a symlink or a
		// directory (never transferred, but it occupies a position in the STAT sequence)
		cls := []int{vh_clsFile, vh_clsSymlink, vh_clsDir}[v.Choose("class-listing-name", 3)]
		add(metadataPath, cls)
		if cls == vh_clsSymlink {
			src[len(src)-1].stat.Linkname = "d"
		}
		v.Cover("listing-name-entry")
	}
	add("d", vh_clsDir)
	if v.Bool("has-d/f") {
		add("d/f", vh_clsFile)
	}
	// "d2": a sibling whose name has the directory name "d" as a string prefix without being inside it
	switch v.Choose("class-d2", 3) {
	case 1:
		add("d2", vh_clsFile)
	case 2:
		add("d2", vh_clsDir)
		if v.Bool("has-d2/g") {
			add("d2/g", vh_clsFile)
		}
	}
	if v.Param("E", 0) != 0 {
		switch v.Choose("class-e", 3) {
		case 1:
			add("e", vh_clsFile)
		case 2:
			add("e", vh_clsDir)
		}
	}
	selected := map[string]bool{}
	for _, e := range src {
		if e.stat.Path != metadataPath {
			selected[e.stat.Path] = v.Bool("select")
		}
	}
	// MERGE=1: merge mode (nothing the source does not replace is deleted, so a pre-existing entry with
	// the listing's name survives until the listing is written)
	merge := v.Param("MERGE", 0) != 0
	out := m.Root("out")
	m.MkFile(out+"/victim", []byte("keep"), 0600, 1, 1, 5)
	nPrior := 4
	if merge {
		nPrior = 5
	}
	prior := v.Choose("prior", nPrior)
	switch prior {
	case 1:
		m.MkFile(dest+"/zz", []byte("z"), 0644, 0, 0, 5)
	case 2:
		m.MkFile(dest+"/"+metadataPath, []byte("old listing"), 0644, 0, 0, 5)
	case 3:
		m.MkSymlink(dest+"/"+metadataPath, "elsewhere", 0, 0, 5)
	case 4:
		m.MkSymlink(dest+"/"+metadataPath, "../out/victim", 0, 0, 5) // a link to a file outside the destination
		v.Cover("listing-name-link-outside")
	}

	ctx := context.Background()
	rcv, snd := vh_newStreamPair(ctx, 256)
	var recvErr error
	done := make(chan struct{})
	go func() {
		recvErr = Receive(ctx, rcv, dest, ReceiveOpt{Merge: merge, MetadataOnly: func(p string, st *types.Stat) bool { return selected[p] }})
		close(done)
	}()
	for _, e := range src {
		snd.SendMsg(&types.Packet{Type: types.PACKET_STAT, Stat: e.stat.Clone()})
	}
	snd.SendMsg(&types.Packet{Type: types.PACKET_STAT})
	requested := map[uint32]int{}
	for fin := false; !fin; {
		var p types.Packet
		if err := snd.RecvMsg(&p); err != nil {
			v.Assert(false, "receiver closed the stream before FIN")
			return
		}
		switch p.Type {
		case types.PACKET_REQ:
			requested[p.ID]++
			if int(p.ID) >= len(src) {
				v.Assert(false, "requested id was announced")
				return
			}
			data := src[p.ID].data
			if len(data) > 0 {
				snd.SendMsg(&types.Packet{Type: types.PACKET_DATA, ID: p.ID, Data: data})
			}
			snd.SendMsg(&types.Packet{Type: types.PACKET_DATA, ID: p.ID})
		case types.PACKET_FIN:
			fin = true
		case types.PACKET_ERR:
			v.Assert(false, "receiver reported an error on a legal stream")
			return
		}
	}
	snd.SendMsg(&types.Packet{Type: types.PACKET_FIN})
	snd.CloseSend()
	<-done
	v.Assert(recvErr == nil, "metadata-only Receive returns success on a legal stream")

	// expected destination: selected entries plus needed ancestors
	var want []*vh_srcEnt
	for _, e := range src {
		p := e.stat.Path
		if p == metadataPath {
			continue
		}
		keep := selected[p]
		if !keep {
			for _, o := range src {
				if selected[o.stat.Path] && vh_isUnder(o.stat.Path, p) {
					keep = true
				}
			}
		}
		if keep {
			want = append(want, e)
		}
	}
	for i, e := range src {
		isReg := os.FileMode(e.stat.Mode)&os.ModeType == 0
		if isReg && selected[e.stat.Path] {
			v.Cover("requested")
			v.Assert(requested[uint32(i)] == 1, "a selected regular file is requested once under the sender's id")
		} else {
			v.Assert(requested[uint32(i)] == 0, "content is requested only for selected regular files")
		}
	}
	snap := m.Snapshot(dest)
	var listing []byte
	n := 0
	for i := range snap {
		if snap[i].Path == metadataPath {
			v.Assert(snap[i].Kind == m.KFile, "the listing is a regular file")
			listing = snap[i].Data
			continue
		}
		n++
	}
	if merge && prior == 1 {
		v.Assert(n == len(want)+1, "in merge mode the destination holds the selected entries, their ancestors and the stale entry")
	} else {
		v.Assert(n == len(want), "destination holds exactly the selected entries and their ancestors (stale entries removed)")
	}
	for i := range snap {
		v.Assert(snap[i].Path != "elsewhere", "nothing is created through a pre-existing link with the listing's name")
	}
	outSnap := m.Snapshot(out)
	v.Assert(len(outSnap) == 1 && string(outSnap[0].Data) == "keep" && outSnap[0].Perm == 0600, "a file outside the destination is not written through a pre-existing link with the listing's name")
	for _, e := range want {
		found := false
		for i := range snap {
			if snap[i].Path == e.stat.Path {
				found = true
				if os.FileMode(e.stat.Mode).IsDir() {
					v.Assert(snap[i].Kind == m.KDir, "selected/ancestor directory exists as a directory")
				} else {
					v.Assert(snap[i].Kind == m.KFile && string(snap[i].Data) == string(e.data), "selected file holds the bytes of that file")
					v.Assert(snap[i].Perm == vh_goModeToUnixPerm(e.stat.Mode) && snap[i].Uid == e.stat.Uid && snap[i].Mtime == e.stat.ModTime, "selected file carries the announced metadata")
				}
			}
		}
		v.Assert(found, "every selected entry and needed ancestor exists")
	}
	// listing: one length-prefixed record per announced stat except the listing's own name, in order
	pos := 0
	for _, e := range src {
		if e.stat.Path == metadataPath {
			continue
		}
		if pos+4 > len(listing) {
			v.Assert(false, "listing holds a record for every announced stat")
			return
		}
		l := int(binary.LittleEndian.Uint32(listing[pos : pos+4]))
		pos += 4
		if pos+l > len(listing) {
			v.Assert(false, "listing record is complete")
			return
		}
		enc, err := e.stat.MarshalVT()
		v.Assert(err == nil && string(listing[pos:pos+l]) == string(enc), "listing record is the encoding of the announced stat")
		pos += l
	}
	v.Assert(pos == len(listing), "listing holds nothing beyond the announced stats")
	v.Cover("done")
}
