package fsutil

import (
	"context"
	"os"

	"github.com/tonistiigi/fsutil/types"
	"github.com/tonistiigi/fsutil/zz_verif/m"
	"github.com/tonistiigi/fsutil/zz_verif/v"
)

// mtimes used by the harnesses (ns); arithmetic on them stays concrete
// MT=0: a sub-second value and the epoch itself (a zero field is absent on the wire);
// MT=1: a pre-epoch instant with a sub-second part (seconds round towards minus infinity) and the last nanosecond of a second
var vh_mtimeSets = [][]int64{{1500000000123, 0}, {-1250000000, 1999999999}}

func vh_mtimes() []int64 { return vh_mtimeSets[v.Param("MT", 0)] }

func vh_chooseMtime(name string) int64 { return vh_mtimes()[v.Choose(name, len(vh_mtimes()))] }

const vh_permMask = 0777 | uint32(os.ModeSetuid) | uint32(os.ModeSetgid) | uint32(os.ModeSticky)

type vh_srcEnt struct {
	stat *types.Stat
	data []byte
}

func vh_goModeToUnixPerm(mode uint32) uint32 {
	p := mode & 0777
	p |= ((mode >> 23) & 1) << 11
	p |= ((mode >> 22) & 1) << 10
	p |= ((mode >> 20) & 1) << 9
	return p
}

// symSource: a legal STAT sequence over {"d", "d/f", "e"}: d is a directory; d/f may be absent, a
// regular file, a symlink or a fifo; e may be a regular file, a symlink, a directory or (if d/f is
// regular) a hard link to d/f. Permission/special bits, uid, gid symbolic; mtimes from a small set;
// regular files carry 0..maxb symbolic bytes.
func vh_symSource(maxb int) []*vh_srcEnt {
	shape := v.Param("SHAPE", 2)
	var out []*vh_srcEnt
	mk := func(p string, class int) *vh_srcEnt {
		st := &types.Stat{Path: p, Mode: vh_modeFor(class, 0) | (v.U32("perm") & vh_permMask), Uid: v.U32("uid"), Gid: v.U32("gid"), ModTime: vh_chooseMtime("mtime")}
		e := &vh_srcEnt{stat: st}
		switch class {
		case vh_clsFile:
			e.data = v.Bytes("data", v.Choose("size", maxb+1))
			st.Size = int64(len(e.data))
		case vh_clsSymlink:
			st.Linkname = "tgt"
			st.Mode = vh_modeFor(vh_clsSymlink, 0777)
			st.Size = 3
		}
		out = append(out, e)
		return e
	}
	if shape == 0 && v.Param("LN", 0) != 0 && v.Bool("has-listing-name") {
		mk(metadataPath, vh_clsFile) // a plain transfer treats this name like any other
	}
	mk("d", vh_clsDir)
	fClass := -1
	if shape != 0 && v.Bool("has-d/f") {
		fClass = 1 + v.Choose("class-d/f", 3)
		mk("d/f", fClass)
	}
	ce := 0
	if shape != 1 {
		ce = v.Choose("class-e", 5)
	}
	switch ce {
	case 0:
	case 1:
		mk("e", vh_clsFile)
	case 2:
		mk("e", vh_clsSymlink)
	case 3:
		mk("e", vh_clsDir)
	case 4:
		v.Assume(fClass == vh_clsFile)
		e := mk("e", vh_clsFile)
		e.stat.Linkname = "d/f"
		e.stat.Size = 0
		e.data = nil
		// a hard link carries the metadata of its inode
		var f *types.Stat
		for _, o := range out {
			if o.stat.Path == "d/f" {
				f = o.stat
			}
		}
		e.stat.Mode, e.stat.Uid, e.stat.Gid, e.stat.ModTime = f.Mode, f.Uid, f.Gid, f.ModTime
	}
	return out
}

// symPriorDest populates dest for each source path with one of: nothing, an identical entry,
// a regular file with other metadata, a directory, a symlink; plus optionally a stale entry "zz".
func vh_symPriorDest(dest string, src []*vh_srcEnt) map[string]string {
	return vh_symPriorDestGid(dest, src, false, 0)
}

// symPriorDestGid: as symPriorDest; with rewrite set an "identical" entry carries group gid (what a
// receiver whose filter rewrites the group left behind).
func vh_symPriorDestGid(dest string, src []*vh_srcEnt, rewrite bool, gid uint32) map[string]string {
	state := map[string]string{}
	dirOK := map[string]bool{"": true}
	for _, e := range src {
		p := e.stat.Path
		par := vh_specParent(p)
		if !dirOK[par] {
			state[p] = "absent"
			continue
		}
		full := dest + "/" + p
		st := e.stat
		isHardlink := os.FileMode(st.Mode)&os.ModeType == 0 && st.Linkname != ""
		np := 5
		if p == "d" {
			np = 3
		}
		if v.Param("META", 0) != 0 && p != "d" && os.FileMode(st.Mode)&os.ModeType == 0 && !isHardlink {
			np = 7
		}
		dirChown := -1
		if v.Param("META", 0) != 0 && os.FileMode(st.Mode).IsDir() {
			dirChown = np
			np++
		}
		c := v.Choose("prior-"+p, np)
		if c == dirChown {
			// a pure metadata edit of a directory: same mode and mtime, other owner
			state[p] = "dir-chown"
			v.Cover("dir-chown")
			m.MkDir(full, vh_goModeToUnixPerm(st.Mode), st.Uid+1, st.Gid, st.ModTime)
			dirOK[p] = true
			continue
		}
		switch c {
		case 0:
			state[p] = "absent"
		case 1:
			v.Assume(!isHardlink)
			state[p] = "same"
			perm := vh_goModeToUnixPerm(st.Mode)
			if rewrite {
				st = st.Clone()
				st.Gid = gid
			}
			switch {
			case os.FileMode(st.Mode).IsDir():
				m.MkDir(full, perm, st.Uid, st.Gid, st.ModTime)
				dirOK[p] = true
			case os.FileMode(st.Mode)&os.ModeSymlink != 0:
				m.MkSymlink(full, st.Linkname, st.Uid, st.Gid, st.ModTime)
			case os.FileMode(st.Mode)&os.ModeNamedPipe != 0:
				m.MkNode(full, m.KFifo, perm, 0, st.Uid, st.Gid, st.ModTime)
			default:
				// the product of an earlier successful transfer: same identity and same bytes
				m.MkFile(full, e.data, perm, st.Uid, st.Gid, st.ModTime)
			}
		case 2:
			state[p] = "other-file"
			m.MkFile(full, []byte("old"), 0600, 7, 7, 5)
		case 3:
			state[p] = "other-dir"
			m.MkDir(full, 0700, 7, 7, 5)
			m.MkFile(full+"/stale", []byte("s"), 0600, 7, 7, 5)
			dirOK[p] = true
		case 4:
			state[p] = "other-symlink"
			m.MkSymlink(full, "elsewhere", 7, 7, 5)
		case 5:
			// a pure metadata edit: same bytes, size and mtime, other owner
			state[p] = "other-meta"
			m.MkFile(full, e.data, vh_goModeToUnixPerm(st.Mode), st.Uid+1, st.Gid, st.ModTime)
		case 6:
			// a touch below the microsecond: same bytes, size, mode and owner, mtime one nanosecond later
			state[p] = "other-mtime"
			v.Cover("other-mtime")
			m.MkFile(full, e.data, vh_goModeToUnixPerm(st.Mode), st.Uid, st.Gid, st.ModTime+1)
		}
	}
	if v.Param("SHAPE", 2) == 0 {
		nStale := 3
		if v.Param("TMP", 0) != 0 {
			nStale = 4
		}
		switch v.Choose("stale-zz", nStale) {
		case 1:
			m.MkFile(dest+"/zz", []byte("z"), 0644, 0, 0, 5)
		case 2:
			m.MkSymlink(dest+"/zz", "does-not-exist", 0, 0, 5) // a dangling stale symlink
		case 3:
			m.MkFile(dest+"/.tmp.zz", []byte("t"), 0644, 0, 0, 5) // a stale entry named like the writer's temp files
		}
	}
	return state
}

// specCheckDest: the destination equals the source view (C01's equality list).
func vh_specCheckDest(dest string, src []*vh_srcEnt, createdDirs map[string]bool) {
	snap := m.Snapshot(dest)
	v.Assert(len(snap) == len(src), "destination has exactly the paths of the source view")
	for _, e := range src {
		var got *m.Entry
		for i := range snap {
			if snap[i].Path == e.stat.Path {
				got = &snap[i]
			}
		}
		if got == nil {
			v.Assert(false, "every source path exists in the destination")
			continue
		}
		st := e.stat
		fm := os.FileMode(st.Mode)
		wantKind := m.KFile
		switch {
		case fm.IsDir():
			wantKind = m.KDir
		case fm&os.ModeSymlink != 0:
			wantKind = m.KSymlink
		case fm&os.ModeNamedPipe != 0:
			wantKind = m.KFifo
		}
		v.Assert(got.Kind == wantKind, "entry type matches the source")
		v.Assert(got.Uid == st.Uid && got.Gid == st.Gid, "uid/gid match the source")
		if wantKind != m.KSymlink {
			v.Assert(got.Perm == vh_goModeToUnixPerm(st.Mode), "permission and setuid/setgid/sticky bits match the source")
		} else {
			v.Assert(got.Target == st.Linkname, "symlink target matches the source")
		}
		if wantKind != m.KDir || createdDirs[st.Path] {
			v.Assert(got.Mtime == st.ModTime, "mtime matches the source (non-directories and created directories)")
		}
		if wantKind == m.KFile {
			want := e.data
			if st.Linkname != "" {
				for _, o := range src {
					if o.stat.Path == st.Linkname {
						want = o.data
					}
				}
				for i := range snap {
					if snap[i].Path == st.Linkname {
						v.Assert(snap[i].Ino == got.Ino, "hard link shares the inode of its source")
					}
				}
			}
			v.Assert(string(got.Data) == string(want), "file bytes match the source")
		}
	}
}

// VH_C07_receiver: the real Receive against a reference sender built from the protocol comment,
// on the model file system. The sender announces a legal STAT sequence, then answers every REQ
// with the file bytes in solver-chosen chunks and a terminator, echoes FIN and closes.
func VH_C07_receiver() {
	maxb := v.Param("MAXB", 2)
	m.Reset()
	dest := m.Root("dest")
	src := vh_symSource(maxb)
	prior := vh_symPriorDest(dest, src)
	ctx := context.Background()
	rcv, snd := vh_newStreamPair(ctx, 256)
	// LAT=1: every SendMsg of the receiver returns only after the peer reacted, so the sender's DATA
	// for an id can reach the receive loop before the REQ call has returned
	rcv.latency = v.Param("LAT", 0) != 0
	var recvErr error
	done := make(chan struct{})
	go func() {
		recvErr = Receive(ctx, rcv, dest, ReceiveOpt{})
		close(done)
	}()
	for _, e := range src {
		st := e.stat.Clone()
		snd.SendMsg(&types.Packet{Type: types.PACKET_STAT, Stat: st})
	}
	snd.SendMsg(&types.Packet{Type: types.PACKET_STAT})
	requested := map[uint32]int{}
	finSeen := false
	for !finSeen {
		var p types.Packet
		if err := snd.RecvMsg(&p); err != nil {
			v.Assert(false, "receiver closed the stream before FIN")
			return
		}
		switch p.Type {
		case types.PACKET_REQ:
			id := p.ID
			requested[id]++
			v.Assert(int(id) < len(src), "requested id was announced")
			if int(id) >= len(src) {
				return
			}
			e := src[id]
			v.Assert(os.FileMode(e.stat.Mode)&os.ModeType == 0 && e.stat.Linkname == "", "only regular non-link files are requested")
			data := e.data
			for len(data) > 0 {
				n := 1 + v.Choose("chunk", len(data))
				snd.SendMsg(&types.Packet{Type: types.PACKET_DATA, ID: id, Data: data[:n]})
				data = data[n:]
			}
			snd.SendMsg(&types.Packet{Type: types.PACKET_DATA, ID: id})
		case types.PACKET_FIN:
			finSeen = true
		case types.PACKET_ERR:
			v.Assert(false, "receiver reported an error on a legal stream")
			return
		}
	}
	snd.SendMsg(&types.Packet{Type: types.PACKET_FIN})
	snd.CloseSend()
	<-done
	v.Assert(recvErr == nil, "Receive returns success on a legal stream")
	// exactly the regular non-link entries whose identity differs from the prior destination are requested, once
	created := map[string]bool{}
	for i, e := range src {
		isReg := os.FileMode(e.stat.Mode)&os.ModeType == 0 && e.stat.Linkname == ""
		need := isReg && prior[e.stat.Path] != "same"
		if need {
			v.Cover("requested")
			v.Assert(requested[uint32(i)] == 1, "a needed regular file is requested exactly once, by its STAT position")
		} else {
			v.Cover("not-requested")
			v.Assert(requested[uint32(i)] == 0, "directories, links, special files and unchanged files are not requested")
		}
		if os.FileMode(e.stat.Mode).IsDir() && prior[e.stat.Path] != "same" && prior[e.stat.Path] != "other-dir" {
			created[e.stat.Path] = true
		}
	}
	vh_specCheckDest(dest, src, created)
	v.Assert(v.Goroutines() == 0, "every receiver goroutine has ended")
	v.Cover("done")
}

// VH_C07_many: a listing of N regular files (N > the sum of the receiver's internal queues) sent
// by a reference sender that, like the real one may, announces the whole tree before it delivers
// any content: the receiver keeps reading the stream, requests every file once, stores every
// payload and finishes with the FIN handshake (a receiver that stops reading stats while it waits
// for content deadlocks against such a sender).
func VH_C07_many() {
	n := int(v.Param("N", 320))
	m.Reset()
	dest := m.Root("dest")
	name := func(i int) string {
		return "f" + string([]byte{byte('0' + i/100), byte('0' + (i/10)%10), byte('0' + i%10)})
	}
	ctx := context.Background()
	rcv, snd := vh_newStreamPair(ctx, 8)
	var recvErr error
	done := make(chan struct{})
	go func() {
		recvErr = Receive(ctx, rcv, dest, ReceiveOpt{})
		close(done)
	}()
	for i := 0; i < n; i++ {
		snd.SendMsg(&types.Packet{Type: types.PACKET_STAT, Stat: &types.Stat{Path: name(i), Mode: 0644, Uid: 1, Gid: 1, Size: 1, ModTime: vh_mtimes()[0]}})
	}
	snd.SendMsg(&types.Packet{Type: types.PACKET_STAT})
	requested := map[uint32]int{}
	for fin := false; !fin; {
		var p types.Packet
		if err := snd.RecvMsg(&p); err != nil {
			v.Assert(false, "receiver closed the stream before FIN")
			return
		}
		switch p.Type {
		case types.PACKET_REQ:
			requested[p.ID]++
			snd.SendMsg(&types.Packet{Type: types.PACKET_DATA, ID: p.ID, Data: []byte{byte(p.ID)}})
			snd.SendMsg(&types.Packet{Type: types.PACKET_DATA, ID: p.ID})
		case types.PACKET_FIN:
			fin = true
		case types.PACKET_ERR:
			v.Assert(false, "receiver reported an error on a legal stream")
			return
		}
	}
	snd.SendMsg(&types.Packet{Type: types.PACKET_FIN})
	snd.CloseSend()
	<-done
	v.Assert(recvErr == nil, "Receive returns success on a long legal listing")
	v.Assert(len(requested) == n, "every file of a long listing is requested")
	for id, c := range requested {
		v.Assert(c == 1 && int(id) < n, "each exactly once, by its position")
	}
	snap := m.Snapshot(dest)
	v.Assert(len(snap) == n, "every file of a long listing is stored")
	for i := range snap {
		v.Assert(len(snap[i].Data) == 1 && int(snap[i].Data[0]) == i%256, "with the payload received for its id")
	}
	v.Cover("done")
}
