package fsutil

import (
	"context"
	"os"

	"github.com/tonistiigi/fsutil/zz_verif/m"
	"github.com/tonistiigi/fsutil/zz_verif/v"
)

// symDiskTree populates root with a source tree over {d, d/f, e, h, l, p}:
// d dir; d/f regular; e regular or dir or absent; h hard link to d/f or absent; l symlink or absent;
// p fifo / char device or absent. Permission/special bits, uid, gid symbolic; mtimes from a small
// set; regular files carry 0..maxb symbolic bytes. Returns the expected view (path -> entry).
func vh_symDiskTree(root string, maxb int) {
	// S selects the optional parts of the universe: 1 = h (hard link), 2 = l (symlink), 4 = p (fifo/device), 8 = e, 16 = zl (second name of the symlink l)
	sel := v.Param("S", 15)
	perm := func() uint32 { return v.U32("perm") & 07777 }
	// NZ=1: ids are symbolic but non-zero (Stat.SizeVT forks on the zero-ness of every field, which
	// multiplies paths without touching anything the property is about); NZ=0: fully symbolic
	nz := v.Param("NZ", 1) != 0
	id := func(name string) uint32 {
		x := v.U32(name)
		if nz {
			v.Assume(x != 0)
		}
		return x
	}
	m.MkDir(root+"/d", perm(), id("uid"), id("gid"), vh_chooseMtime("mtime"))
	if v.Param("X", 0) != 0 && v.Bool("xattr-d") {
		m.SetXattr(root+"/d", "user.d", v.Bytes("xd", v.Choose("xd-len", 2))) // present with an empty value, or one byte
	}
	if v.Bool("has-d/f") {
		m.MkFile(root+"/d/f", v.Bytes("data", v.Choose("size", maxb+1)), perm(), id("uid"), id("gid"), vh_chooseMtime("mtime"))
		if v.Param("X", 0) != 0 && v.Bool("xattr-f") {
			m.SetXattr(root+"/d/f", "user.f", v.Bytes("xf", v.Choose("xf-len", 2)))
		}
		if sel&1 != 0 && v.Bool("has-h") {
			m.MkLink(root+"/d/f", root+"/h")
		}
	}
	ce := 0
	if sel&8 != 0 {
		ce = v.Choose("class-e", 3)
	}
	switch ce {
	case 1:
		m.MkFile(root+"/e", v.Bytes("data", v.Choose("size", maxb+1)), perm(), id("uid"), id("gid"), vh_chooseMtime("mtime"))
	case 2:
		m.MkDir(root+"/e", perm(), id("uid"), id("gid"), vh_chooseMtime("mtime"))
	}
	if sel&2 != 0 && v.Bool("has-l") {
		m.MkSymlink(root+"/l", []string{"d/f", "d"}[v.Choose("target-l", 2)], id("uid"), id("gid"), vh_chooseMtime("mtime"))
		if sel&16 != 0 && v.Bool("has-l2") {
			// a second name of the symlink's inode (link(2) on a symlink), in another directory
			m.MkLink(root+"/l", root+"/zl")
		}
	}
	cp := 0
	if sel&4 != 0 {
		cp = v.Choose("class-p", 3)
	}
	switch cp {
	case 1:
		m.MkNode(root+"/p", m.KFifo, perm(), 0, id("uid"), id("gid"), vh_chooseMtime("mtime"))
	case 2:
		// major 1, minor 300: a minor beyond 8 bits lives in the high part of the device number
		m.MkNode(root+"/p", m.KChar, perm(), 0x10012c, id("uid"), id("gid"), vh_chooseMtime("mtime"))
	}
	// populating changed the directory mtimes; give them their final values last
	m.SetMtime(root+"/d", vh_chooseMtime("mtime-d"))
}

// symDirtyDest puts leftovers into dest: nothing, a stale file, an entry of another type at "e",
// a file where the source has the directory "d".
func vh_symDirtyDest(dest string) {
	switch v.Choose("dirty", v.Param("D", 5)) {
	case 1:
		m.MkFile(dest+"/zz", []byte("z"), 0644, 0, 0, 5)
	case 2:
		m.MkDir(dest+"/e", 0700, 7, 7, 5)
		m.MkFile(dest+"/e/stale", []byte("s"), 0600, 7, 7, 5)
	case 3:
		m.MkFile(dest+"/d", []byte("was a file"), 0600, 7, 7, 5)
	case 4:
		m.MkSymlink(dest+"/e", "nowhere", 7, 7, 5)
		m.MkDir(dest+"/d", 0700, 7, 7, 5)
		m.MkFile(dest+"/d/f", []byte("old"), 0600, 7, 7, 5)
	case 5:
		// a directory (with a child named like an entry of d) where the source has the symlink l
		m.MkDir(dest+"/l", 0700, 7, 7, 5)
		m.MkFile(dest+"/l/f", []byte("old"), 0600, 7, 7, 5)
	}
}

func vh_xattrsEqual(a, b *m.Entry) bool {
	if len(a.XKeys) != len(b.XKeys) {
		return false
	}
	ok := true
	for i, k := range a.XKeys {
		found := false
		for j, k2 := range b.XKeys {
			if k == k2 {
				found = true
				ok = v.And(ok, string(a.XVals[i]) == string(b.XVals[j]))
			}
		}
		ok = v.And(ok, found)
	}
	return ok
}

func vh_sameGroup(snap []m.Entry, a, b string) bool {
	var ia, ib uint64
	for i := range snap {
		if snap[i].Path == a {
			ia = snap[i].Ino
		}
		if snap[i].Path == b {
			ib = snap[i].Ino
		}
	}
	return ia != 0 && ia == ib
}

// specTreesEqual: dest equals the source tree: path set, types, bytes, permission and special
// bits, uid/gid, symlink targets, device numbers, hard-link groups, mtimes of non-directories and of
// directories the transfer created.
func vh_specTreesEqual(src, dst []m.Entry, createdDir func(string) bool) {
	v.Assert(len(src) == len(dst), "destination has exactly the paths of the source")
	for i := range src {
		s := &src[i]
		var d *m.Entry
		for j := range dst {
			if dst[j].Path == s.Path {
				d = &dst[j]
			}
		}
		if d == nil {
			v.Assert(false, "every source path exists in the destination")
			continue
		}
		v.Assert(d.Kind == s.Kind, "entry types are equal")
		v.Assert(d.Uid == s.Uid && d.Gid == s.Gid, "uid/gid are equal")
		if s.Kind != m.KSymlink {
			v.Assert(d.Perm == s.Perm, "permission and setuid/setgid/sticky bits are equal")
		}
		v.Assert(d.Target == s.Target, "symlink targets are equal")
		v.Assert(d.Rdev == s.Rdev, "device numbers are equal")
		if s.Kind == m.KFile {
			v.Assert(string(d.Data) == string(s.Data), "file bytes are equal")
		}
		if s.Kind != m.KDir || createdDir(s.Path) {
			v.Assert(d.Mtime == s.Mtime, "mtimes are equal (non-directories and created directories)")
		}
		if s.Kind == m.KFile || (s.Kind == m.KDir && createdDir(s.Path)) {
			v.Assert(vh_xattrsEqual(s, d), "xattrs of regular files and of created directories are equal")
		}
		for k := range src {
			if k != i && src[k].Kind == m.KFile && s.Kind == m.KFile {
				v.Assert(vh_sameGroup(src, s.Path, src[k].Path) == vh_sameGroup(dst, s.Path, src[k].Path), "hard-link groups are equal")
			}
		}
	}
}

// VH_C01_e2e: the real Send (on-disk source through NewFS) and the real Receive connected by the
// in-memory stream, both on the model file system: when both return success the destination equals
// the source tree, for every source tree and every dirty prior destination inside the bounds.
func VH_C01_e2e() {
	maxb := v.Param("MAXB", 1)
	m.Reset()
	srcRoot, dest := m.Root("src"), m.Root("dest")
	vh_symDiskTree(srcRoot, maxb)
	vh_symDirtyDest(dest)
	priorDirs := map[string]bool{}
	for _, e := range m.Snapshot(dest) {
		if e.Kind == m.KDir {
			priorDirs[e.Path] = true
		}
	}
	srcSnap := m.Snapshot(srcRoot)
	fs, err := NewFS(srcRoot)
	v.Assert(err == nil, "NewFS on an existing directory succeeds")
	if err != nil {
		return
	}
	ctx := context.Background()
	s1, s2 := vh_newStreamPair(ctx, 512)
	var sendErr, recvErr error
	sendDone, recvDone := make(chan struct{}), make(chan struct{})
	go func() {
		sendErr = Send(ctx, s1, fs, nil)
		s1.CloseSend()
		close(sendDone)
	}()
	merge := v.Param("MERGE", 0) != 0
	destBefore := m.Snapshot(dest)
	go func() {
		recvErr = Receive(ctx, s2, dest, ReceiveOpt{Merge: merge})
		close(recvDone)
	}()
	<-recvDone
	<-sendDone
	v.Assert(sendErr == nil && recvErr == nil, "a fault-free transfer succeeds on both ends")
	if sendErr != nil || recvErr != nil {
		return
	}
	dstSnap := m.Snapshot(dest)
	if merge {
		// merge mode: the overlay of the source over the old destination; nothing is deleted that the
		// source does not replace
		v.Cover("merge")
		var fromSrc []m.Entry
		for _, d := range dstSnap {
			for _, s := range srcSnap {
				if s.Path == d.Path {
					fromSrc = append(fromSrc, d)
				}
			}
		}
		vh_specTreesEqual(srcSnap, fromSrc, func(p string) bool { return !priorDirs[p] })
		for i := range destBefore {
			o := &destBefore[i]
			inSrc, replaced := false, false
			for _, s := range srcSnap {
				if s.Path == o.Path {
					inSrc = true
				}
				if vh_isUnder(o.Path, s.Path) && s.Kind != m.KDir {
					replaced = true // an ancestor directory was replaced by a non-directory
				}
			}
			if inSrc || replaced {
				continue
			}
			var a *m.Entry
			for j := range dstSnap {
				if dstSnap[j].Path == o.Path {
					a = &dstSnap[j]
				}
			}
			v.Cover("kept-stale")
			v.Assert(a != nil && a.Kind == o.Kind && string(a.Data) == string(o.Data) && a.Target == o.Target, "in merge mode nothing is deleted that the source does not replace")
		}
	} else {
		vh_specTreesEqual(srcSnap, dstSnap, func(p string) bool { return !priorDirs[p] })
	}
	after := m.Snapshot(srcRoot)
	v.Assert(len(after) == len(srcSnap), "the source tree is not modified")
	v.Assert(v.Goroutines() == 0, "every goroutine of both ends has ended")
	_ = os.ModeDir
	v.Cover("done")
}
