package util

import (
	"context"
	"io"

	"github.com/tonistiigi/fsutil/types"
	"github.com/tonistiigi/fsutil/zz_verif/v"
)

type sinkWriter struct{ data []byte }

func (w *sinkWriter) Write(p []byte) (int, error) {
	w.data = append(w.data, p...)
	return len(p), nil
}

// fragReader hands out the stream in arbitrary fragments: every call returns between 1 and
// min(len(p), remaining) bytes, the count being a solver-chosen value.
type fragReader struct {
	data []byte
	pos  int
}

func (r *fragReader) Read(p []byte) (int, error) {
	rem := len(r.data) - r.pos
	if rem == 0 {
		return 0, io.EOF
	}
	if len(p) == 0 {
		return 0, nil
	}
	max := len(p)
	if rem < max {
		max = rem
	}
	n := 1 + v.Choose("frag", max)
	copy(p, r.data[r.pos:r.pos+n])
	r.pos += n
	return n, nil
}

func small32(x uint32) bool { return x < 0x80 || x >= 1<<28 }

func symPacket(tag string, d int, withID bool) *types.Packet {
	p := &types.Packet{Type: types.Packet_PacketType(v.U8(tag + ".type"))}
	v.Assume(p.Type < 8)
	if withID {
		p.ID = v.U32(tag + ".id")
		v.Assume(small32(p.ID))
	}
	if d > 0 {
		p.Data = v.Bytes(tag+".data", d)
	}
	return p
}

// VH_C20_framing: two packets written with SendMsg are read back by RecvMsg identical and in
// order for every fragmentation of the byte stream; the first decoded packet is unaffected by the
// second receive (which reuses the pooled buffer); an empty packet is framed as a bare zero length.
func VH_C20_framing() {
	d1, d2 := v.Param("D1", 1), v.Param("D2", 0)
	withID := v.Param("ID", 0) != 0
	p1, p2 := symPacket("p1", d1, withID), symPacket("p2", d2, withID)
	w := &sinkWriter{}
	tx := NewProtoStream(context.Background(), nil, w)
	v.Assert(tx.SendMsg(p1) == nil && tx.SendMsg(p2) == nil, "SendMsg succeeds")
	v.Observe("stream", w.data)
	rx := NewProtoStream(context.Background(), &fragReader{data: w.data}, nil)
	var q1, q2 types.Packet
	v.Assert(rx.RecvMsg(&q1) == nil, "first RecvMsg succeeds")
	v.Assert(rx.RecvMsg(&q2) == nil, "second RecvMsg succeeds")
	v.Assert(q1.Type == p1.Type && q1.ID == p1.ID && string(q1.Data) == string(p1.Data), "first packet read back identical (after the second receive)")
	v.Assert(q2.Type == p2.Type && q2.ID == p2.ID && string(q2.Data) == string(p2.Data), "second packet read back identical")
	var q3 types.Packet
	v.Assert(rx.RecvMsg(&q3) == io.EOF, "end of stream after the last packet")
	v.Cover("done")
}
