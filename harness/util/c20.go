package util

import (
	"context"
	"io"

	"github.com/tonistiigi/fsutil/types"
	"github.com/tonistiigi/fsutil/zz_verif/v"
)

type vh_sinkWriter struct{ data []byte }

func (w *vh_sinkWriter) Write(p []byte) (int, error) {
	w.data = append(w.data, p...)
	return len(p), nil
}

// fragReader hands out the stream in arbitrary fragments: every call returns between 1 and
// min(len(p), remaining) bytes, the count being a solver-chosen value.
type vh_fragReader struct {
	data  []byte
	pos   int
	whole bool // hand out as much as fits in one call instead of a solver-chosen fragment
}

func (r *vh_fragReader) Read(p []byte) (int, error) {
	rem := len(r.data) - r.pos
	if rem == 0 {
		return 0, io.EOF
	}
	if len(p) == 0 {
		return 0, nil
	}
	if len(p) > rem {
		p = p[:rem] // keeps the length concrete when the caller's buffer has a symbolic (hostile) size
	}
	max := len(p)
	n := max
	if !r.whole {
		n = 1 + v.Choose("frag", max)
	}
	copy(p, r.data[r.pos:r.pos+n])
	r.pos += n
	return n, nil
}

func vh_small32(x uint32) bool { return x < 0x80 || x >= 1<<28 }

func vh_symPacket(tag string, d int, withID bool) *types.Packet {
	p := &types.Packet{Type: types.Packet_PacketType(v.U8(tag + ".type"))}
	v.Assume(p.Type < 8)
	if withID {
		p.ID = v.U32(tag + ".id")
		v.Assume(vh_small32(p.ID))
	}
	if d > 0 {
		p.Data = v.Bytes(tag+".data", d)
	}
	return p
}

// VH_C20_framing: two packets written with SendMsg are read back by RecvMsg identical and in
// order for every fragmentation of the byte stream; the first decoded packet is unaffected by the
// second receive (which reuses the pooled buffer); an empty packet is framed as a bare zero length.
func VH_C20_framing() {
	d1, d2 := v.Param("D1", 1), v.Param("D2", 0)
	idMode := v.Param("ID", 0) // 1: symbolic id on the first packet, 2: on both
	p1, p2 := vh_symPacket("p1", d1, idMode >= 1), vh_symPacket("p2", d2, idMode >= 2)
	w := &vh_sinkWriter{}
	tx := NewProtoStream(context.Background(), nil, w)
	v.Assert(tx.SendMsg(p1) == nil && tx.SendMsg(p2) == nil, "SendMsg succeeds")
	v.Observe("stream", w.data)
	rx := NewProtoStream(context.Background(), &vh_fragReader{data: w.data}, nil)
	var q1, q2 types.Packet
	v.Assert(rx.RecvMsg(&q1) == nil, "first RecvMsg succeeds")
	v.Assert(rx.RecvMsg(&q2) == nil, "second RecvMsg succeeds")
	v.Assert(q1.Type == p1.Type && q1.ID == p1.ID && string(q1.Data) == string(p1.Data), "first packet read back identical (after the second receive)")
	v.Assert(q2.Type == p2.Type && q2.ID == p2.ID && string(q2.Data) == string(p2.Data), "second packet read back identical")
	var q3 types.Packet
	v.Assert(rx.RecvMsg(&q3) == io.EOF, "end of stream after the last packet")
	v.Cover("done")
}

// VH_C20_recv_arbitrary: RecvMsg on an arbitrary byte stream (4 symbolic length bytes followed by
// K symbolic payload bytes): it returns a packet or an error and
// never panics; when it accepts, the frame length fits the stream and the packet equals what the
// codec decodes from exactly those payload bytes. (The size of the buffer it allocates for a
// hostile length is not asserted.)
func VH_C20_recv_arbitrary() {
	k := v.Param("K", 2)
	data := v.Bytes("stream", 4+k)
	rx := NewProtoStream(context.Background(), &vh_fragReader{data: data, whole: true}, nil)
	var p types.Packet
	err := rx.RecvMsg(&p)
	v.Observe("ok", err == nil)
	if err != nil {
		v.Cover("rejected")
		return
	}
	v.Cover("accepted")
	length := int(data[0])<<24 | int(data[1])<<16 | int(data[2])<<8 | int(data[3])
	v.Assert(length <= k, "an accepted frame is no longer than what the stream held")
	var q types.Packet
	v.Assert(q.UnmarshalVT(data[4:4+length]) == nil, "an accepted frame is a valid packet encoding")
	v.Assert(q.Type == p.Type && q.ID == p.ID && string(q.Data) == string(p.Data), "the received packet is the decoding of exactly the framed bytes")
	v.Assert(!v.Overlaps(p.Data, data), "the received packet does not alias the stream buffer")
}

// VH_C20_framing_big: a DATA packet whose encoding straddles the pooled 32 KiB buffer size (every
// encoded size from 32768-W to 32768+W), followed or preceded by a small packet, is framed and
// read back identical. The payload is a fixed byte pattern except for symbolic first/last bytes.
func VH_C20_framing_big() {
	w0 := v.Param("W", 6)
	// encoded size = len(data) + 6 (type 2 bytes, data tag 1 + 3-byte length)
	d := 32768 - 6 - w0 + v.Choose("dl", 2*w0+1)
	data := make([]byte, d)
	for i := range data {
		data[i] = byte(i*7 + 3)
	}
	data[0], data[d-1] = v.U8("first"), v.U8("last")
	big := &types.Packet{Type: types.PACKET_DATA, Data: data}
	small := vh_symPacket("s", 1, false)
	bigFirst := v.Bool("bigFirst")
	p1, p2 := small, big
	if bigFirst {
		p1, p2 = big, small
	}
	w := &vh_sinkWriter{}
	tx := NewProtoStream(context.Background(), nil, w)
	v.Assert(tx.SendMsg(p1) == nil && tx.SendMsg(p2) == nil, "SendMsg succeeds")
	v.Assert(len(w.data) == 8+p1.SizeVT()+p2.SizeVT(), "the stream holds two length-prefixed frames")
	rx := NewProtoStream(context.Background(), &vh_fragReader{data: w.data, whole: true}, nil)
	var q1, q2 types.Packet
	v.Assert(rx.RecvMsg(&q1) == nil, "first RecvMsg succeeds")
	v.Assert(rx.RecvMsg(&q2) == nil, "second RecvMsg succeeds")
	v.Assert(q1.Type == p1.Type && q1.ID == p1.ID && string(q1.Data) == string(p1.Data), "first packet read back identical (after the second receive)")
	v.Assert(q2.Type == p2.Type && q2.ID == p2.ID && string(q2.Data) == string(p2.Data), "second packet read back identical")
	var q3 types.Packet
	v.Assert(rx.RecvMsg(&q3) == io.EOF, "end of stream after the last packet")
	v.Cover("done")
}
