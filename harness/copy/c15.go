package fs

import (
	"context"

	"github.com/tonistiigi/fsutil/zz_verif/m"
	"github.com/tonistiigi/fsutil/zz_verif/v"
)

const (
	vh_oAbsent = iota
	vh_oFile
	vh_oDir
	vh_oSymlink
	vh_oFifo
)

func vh_mkObj(base, name string, kind int, tag string, uid uint32) {
	p := base + "/" + name
	switch kind {
	case vh_oFile:
		m.MkFile(p, v.Bytes(tag+"-data", 1), 0640, uid, uid, 9000000000)
	case vh_oDir:
		m.MkDir(p, 0750, uid, uid, 5)
		if v.Bool(tag + "-child") {
			m.MkFile(p+"/c"+tag[:1], v.Bytes(tag+"-cdata", 1), 0640, uid, uid, 9000000000)
		}
		if v.Bool(tag + "-shared") {
			m.MkFile(p+"/k", v.Bytes(tag+"-kdata", 1), 0640, uid, uid, 9000000000)
		}
		m.SetMtime(p, 8000000000)
	case vh_oSymlink:
		m.MkSymlink(p, "tgt-"+tag[:1], uid, uid, 9000000000)
	case vh_oFifo:
		m.MkNode(p, m.KFifo, 0640, 0, uid, uid, 9000000000)
	}
}

type vh_want struct {
	kind    int
	fromSrc bool // attributes and content come from the source entry at srcPath
	srcPath string
	dstPath string // for kept destination entries: the old destination entry
}

// overlay computes, from the statement of C15, what dst/<target> must contain after copying the
// source directory t onto it: directories merge, a source non-directory replaces a destination
// non-directory of any type, unrelated destination entries stay, a directory meeting a
// non-directory (either way) is a conflict unless always-replace lets the source win.
func vh_overlay(src, dst []m.Entry, srcDir, dstDir string, always bool, out map[string]vh_want) (conflict bool) {
	for i := range dst {
		d := &dst[i]
		if vh_isUnder(d.Path, dstDir) {
			out[d.Path] = vh_want{kind: d.Kind, dstPath: d.Path}
		}
	}
	var rec func(sdir, ddir string)
	rec = func(sdir, ddir string) {
		for i := range src {
			s := &src[i]
			if !vh_isUnder(s.Path, sdir) || vh_isUnder(s.Path[len(sdir)+1:], "") {
				continue
			}
			name := s.Path[len(sdir)+1:]
			direct := true
			for j := 0; j < len(name); j++ {
				if name[j] == '/' {
					direct = false
				}
			}
			if !direct {
				continue
			}
			dp := ddir + "/" + name
			old, exists := out[dp]
			switch {
			case !exists:
				out[dp] = vh_want{kind: s.Kind, fromSrc: true, srcPath: s.Path}
				if s.Kind == m.KDir {
					rec(s.Path, dp)
				}
			case s.Kind == m.KDir && old.kind == m.KDir:
				rec(s.Path, dp) // merge
			case s.Kind != m.KDir && old.kind != m.KDir:
				out[dp] = vh_want{kind: s.Kind, fromSrc: true, srcPath: s.Path}
			default:
				if !always {
					conflict = true
					continue
				}
				for k := range out {
					if vh_isUnder(k, dp) {
						delete(out, k)
					}
				}
				out[dp] = vh_want{kind: s.Kind, fromSrc: true, srcPath: s.Path}
				if s.Kind == m.KDir {
					rec(s.Path, dp)
				}
			}
		}
	}
	rec(srcDir, dstDir)
	return conflict
}

// VH_C15_overlay: copying the directory src/t onto a populated destination over a shared name
// universe ({x, y} with every type pair colliding, children inside directories) yields the overlay
// of the source over the destination; a directory meeting a non-directory is an error that leaves
// the obstacle in place unless always-replace is set; repeating a successful copy changes nothing.
func VH_C15_overlay() {
	m.Reset()
	src, dst := m.Root("src"), m.Root("dst")
	m.MkDir(src+"/t", 0755, 1, 1, 5)
	vh_mkObj(src+"/t", "x", 1+v.Choose("src-x", 3), "sx", 1) // file, dir, symlink
	if v.Param("Y", 0) != 0 {
		vh_mkObj(src+"/t", "y", v.Choose("src-y", 3), "sy", 1)
	}
	m.SetMtime(src+"/t", 7000000000)

	dstHasT := v.Bool("dst-has-t")
	if dstHasT {
		m.MkDir(dst+"/t", 0700, 2, 2, 5)
		vh_mkObj(dst+"/t", "x", v.Choose("dst-x", 5), "dx", 2)
		if v.Param("Y", 0) != 0 {
			vh_mkObj(dst+"/t", "y", v.Choose("dst-y", 5), "dy", 2)
		}
		if v.Bool("dst-unrelated") {
			m.MkFile(dst+"/t/z", []byte("z"), 0600, 2, 2, 9000000000)
		}
		if dx := vh_findEntry(m.Snapshot(dst), "t/x"); dx != nil && dx.Kind == m.KFile && v.Bool("dst-x-has-other-name") {
			// the colliding destination file has a second name the source never mentions: replacing
			// t/x must not write through the shared inode
			m.MkLink(dst+"/t/x", dst+"/t/zz-other-name")
			v.Cover("hardlinked-obstacle")
		}
		m.SetMtime(dst+"/t", 6000000000)
	}
	dirContents, always := v.Bool("dir-contents"), v.Bool("always-replace")
	dstArg := []string{"t", "t/", "n/m"}[v.Choose("dst-arg", 3)]
	// (directory-contents mode only: without it an existing destination path of any type is taken as the
	// container to copy into, cp style, and a non-directory container is an error either way)
	if !dstHasT && dstArg == "t" && dirContents && v.Bool("dst-t-is-file") {
		// the destination path itself exists as a non-directory: the source directory meets it at the
		// top level (an error that leaves it in place, unless always-replace is set: then the source wins)
		m.MkFile(dst+"/t", []byte("obstacle"), 0600, 2, 2, 9000000000)
		v.Cover("top-level-obstacle")
		srcSnap := m.Snapshot(src)
		ci := CopyInfo{CopyDirContents: dirContents, AlwaysReplaceExistingDestPaths: always}
		err := Copy(context.Background(), src, "t", dst, dstArg, WithCopyInfo(ci))
		after := m.Snapshot(dst)
		t := vh_findEntry(after, "t")
		if !always {
			v.Assert(err != nil, "a source directory meeting a non-directory at the destination path is an error (without always-replace)")
			v.Assert(t != nil && t.Kind == m.KFile && string(t.Data) == "obstacle", "the obstacle at the destination path stays in place")
			return
		}
		v.Assert(err == nil, "with always-replace the source directory replaces a non-directory at the destination path")
		if err != nil {
			return
		}
		v.Assert(t != nil && t.Kind == m.KDir, "the destination path is now a directory")
		n := 0
		for i := range srcSnap {
			sp := srcSnap[i].Path
			if !vh_isUnder(sp, "t") {
				continue
			}
			n++
			d := vh_findEntry(after, sp)
			v.Assert(d != nil && d.Kind == srcSnap[i].Kind && string(d.Data) == string(srcSnap[i].Data) && d.Target == srcSnap[i].Target, "and holds the contents of the source directory")
		}
		v.Assert(len(after) == n+1, "and nothing else")
		return
	}
	srcSnap, dstBefore := m.Snapshot(src), m.Snapshot(dst)

	// where the source directory lands: a path ending in a separator names a directory to copy
	// into (it is created if missing); an existing directory receives the source directory under
	// its own name unless directory-contents mode is on
	ensured := dstHasT || dstArg == "t/"
	target := "t"
	switch {
	case dstArg == "n/m":
		target = "n/m"
	case ensured && !dirContents:
		target = "t/t"
	}
	expect := map[string]vh_want{}
	for i := range dstBefore {
		d := &dstBefore[i]
		expect[d.Path] = vh_want{kind: d.Kind, dstPath: d.Path}
	}
	if _, ok := expect["t"]; !ok && ensured {
		expect["t"] = vh_want{kind: m.KDir} // created as a parent: default attributes, not asserted
	}
	if target == "n/m" {
		expect["n"] = vh_want{kind: m.KDir}
	}
	conflict := false
	if _, exists := expect[target]; !exists {
		// in directory-contents mode the target directory is prepared with default attributes and
		// only receives the contents; otherwise it is a copy of the source directory
		expect[target] = vh_want{kind: m.KDir, fromSrc: !dirContents, srcPath: "t"}
	}
	conflict = vh_overlay(srcSnap, dstBefore, "t", target, always, expect)

	ci := CopyInfo{CopyDirContents: dirContents, AlwaysReplaceExistingDestPaths: always}
	err := Copy(context.Background(), src, "t", dst, dstArg, WithCopyInfo(ci))
	v.Observe("failed", err != nil)
	after := m.Snapshot(dst)
	if conflict {
		v.Cover("conflict")
		v.Assert(err != nil, "a directory meeting a non-directory is an error (without always-replace)")
		// the obstacle stays: every destination entry that collides by type is untouched
		for i := range dstBefore {
			d := &dstBefore[i]
			a := vh_findEntry(after, d.Path)
			if w, ok := expect[d.Path]; ok && !w.fromSrc && w.dstPath == d.Path && (d.Kind != m.KDir) {
				// kept entries (including obstacles) keep type and content
				if a == nil {
					v.Assert(false, "a conflict leaves existing destination entries in place")
					continue
				}
				v.Assert(a.Kind == d.Kind && string(a.Data) == string(d.Data) && a.Target == d.Target, "a conflict leaves the obstacle and unrelated entries unchanged")
			}
		}
		return
	}
	v.Cover("overlay")
	v.Assert(err == nil, "an overlay without type conflicts succeeds")
	if err != nil {
		return
	}
	v.Assert(len(after) == len(expect), "the destination holds exactly the overlay of the source over the old destination")
	for i := range after {
		a := &after[i]
		w, ok := expect[a.Path]
		if !ok {
			v.Assert(false, "no entry outside the overlay is created")
			continue
		}
		v.Assert(a.Kind == w.kind, "every overlay entry has the expected type")
		if w.fromSrc {
			s := vh_findEntry(srcSnap, w.srcPath)
			v.Assert(string(a.Data) == string(s.Data) && a.Target == s.Target, "an entry taken from the source has the source's bytes / link target")
			v.Assert(a.Uid == s.Uid && a.Gid == s.Gid && a.Mtime == s.Mtime, "an entry taken from the source has the source's owner and mtime")
			if s.Kind != m.KSymlink {
				v.Assert(a.Perm == s.Perm, "an entry taken from the source has the source's mode")
			}
		} else if w.dstPath != "" && w.kind != m.KDir {
			d := vh_findEntry(dstBefore, w.dstPath)
			v.Assert(string(a.Data) == string(d.Data) && a.Target == d.Target && a.Uid == d.Uid && a.Perm == d.Perm && a.Mtime == d.Mtime && a.Ino == d.Ino, "unrelated destination entries stay untouched")
		}
	}
	// idempotence
	err = Copy(context.Background(), src, "t", dst, dstArg, WithCopyInfo(ci))
	v.Assert(err == nil, "repeating a successful copy succeeds")
	again := m.Snapshot(dst)
	// a repeat resolves to the same target only in directory-contents mode, or when the first copy
	// already nested the source under an existing directory
	if dirContents || (ensured && dstArg != "n/m") {
		v.Cover("idempotent")
		same := len(again) == len(after)
		if same {
			for i := range after {
				x, y := after[i], again[i]
				same = v.And(same, x.Path == y.Path, x.Kind == y.Kind, x.Perm == y.Perm, x.Uid == y.Uid, x.Gid == y.Gid, x.Mtime == y.Mtime, string(x.Data) == string(y.Data), x.Target == y.Target)
			}
		}
		v.Assert(same, "repeating a successful copy changes nothing")
	}
}
