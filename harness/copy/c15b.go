package fs

import (
	"context"

	"github.com/tonistiigi/fsutil/zz_verif/m"
	"github.com/tonistiigi/fsutil/zz_verif/v"
)

// VH_C15_wildcard: a wildcard source behaves as the union of its matches: copying "t/x*" into a
// directory gives the same tree as copying each matching entry on its own, for every assignment of
// types to the matching names and every prior content of the target directory.
func VH_C15_wildcard() {
	m.Reset()
	src, dstA, dstB := m.Root("src"), m.Root("dsta"), m.Root("dstb")
	m.MkDir(src+"/t", 0755, 1, 1, 5)
	names := []string{"x1", "x2", "y"}
	present := map[string]bool{}
	for _, n := range names {
		k := v.Choose("kind-"+n, 4) // absent, file, dir with a child, symlink
		if k != vh_oAbsent {
			present[n] = true
		}
		vh_mkObj(src+"/t", n, k, "s"+n, 1)
	}
	pat := v.Param("PAT", 0) // 0: "t/x*" (wildcard in the last component), 1: "t/*/k" (in a middle component)
	if pat == 0 && vh_findEntry(m.Snapshot(src), "t/y") != nil && vh_findEntry(m.Snapshot(src), "t/y").Kind == m.KDir && v.Bool("nested-match") {
		// a name matching the wildcard inside a directory that does not match it
		m.MkFile(src+"/t/y/x3", []byte("n"), 0640, 1, 1, 9000000000)
		m.SetMtime(src+"/t/y", 8000000000)
		v.Cover("nested-match")
	}
	m.SetMtime(src+"/t", 7000000000)
	for _, d := range []string{dstA, dstB} {
		switch v.Choose("prior", 3) {
		case 1:
			m.MkDir(d+"/out", 0700, 2, 2, 5)
		case 2:
			m.MkDir(d+"/out", 0700, 2, 2, 5)
			m.MkFile(d+"/out/x1", []byte("old"), 0600, 2, 2, 9000000000)
			m.SetMtime(d+"/out", 6000000000)
		}
		if d == dstA {
			// both destinations start identical: replay the same choice
			continue
		}
	}
	// make dstB's prior state equal to dstA's (the second Choose above is independent; constrain it)
	a, b := m.Snapshot(dstA), m.Snapshot(dstB)
	v.Assume(len(a) == len(b))
	ci := CopyInfo{AllowWildcards: true}
	dstArg := []string{"out/", "out"}[v.Choose("dst-arg", 2)]
	if dstArg == "out" {
		// without a trailing separator a matching symlink can itself become the destination path, which
		// a later individual copy then resolves (path arguments are resolved inside the root) while the
		// wildcard copy resolved it once: the statement does not define that corner, so it is left out
		v.Assume(!vh_hasSymlinkMatch(src))
	}
	wild := []string{"t/x*", "t/*/k"}[pat]
	errA := Copy(context.Background(), src, wild, dstA, dstArg, WithCopyInfo(ci))
	var errB error
	nMatch := 0
	if pat == 0 {
		for _, n := range []string{"x1", "x2"} {
			if present[n] {
				nMatch++
				if e := Copy(context.Background(), src, "t/"+n, dstB, dstArg); e != nil && errB == nil {
					errB = e
				}
			}
		}
	} else {
		for _, n := range names {
			if vh_findEntry(m.Snapshot(src), "t/"+n+"/k") != nil {
				nMatch++
				if e := Copy(context.Background(), src, "t/"+n+"/k", dstB, dstArg); e != nil && errB == nil {
					errB = e
				}
			}
		}
		v.Cover("middle-wildcard")
	}
	if nMatch == 0 {
		v.Cover("no-match")
		v.Assert(errA != nil, "a wildcard without matches is an error")
		return
	}
	v.Cover("matches")
	v.Assert((errA == nil) == (errB == nil), "the wildcard copy fails exactly when one of the individual copies fails")
	if errA != nil || errB != nil {
		return
	}
	after, ref := m.Snapshot(dstA), m.Snapshot(dstB)
	v.Assert(len(after) == len(ref), "the wildcard copy creates the union of what the individual copies create")
	for i := range ref {
		d := vh_findEntry(after, ref[i].Path)
		if d == nil {
			v.Assert(false, "every entry of the union exists")
			continue
		}
		v.Assert(d.Kind == ref[i].Kind && string(d.Data) == string(ref[i].Data) && d.Target == ref[i].Target && d.Perm == ref[i].Perm && d.Uid == ref[i].Uid, "each entry of the union is the same as in the individual copy")
	}
	if pat == 0 {
		v.Assert(vh_findEntry(after, "out/y") == nil && vh_findEntry(after, "y") == nil, "an entry that does not match the wildcard is not copied")
	}
}

func vh_hasSymlinkMatch(src string) bool {
	for _, e := range m.Snapshot(src) {
		if (e.Path == "t/x1" || e.Path == "t/x2") && e.Kind == m.KSymlink {
			return true
		}
	}
	return false
}
