package fs

import (
	"github.com/tonistiigi/fsutil/zz_verif/m"
	"github.com/tonistiigi/fsutil/zz_verif/v"
)

var vh_mtimeChoices = []int64{1500000000123, 77000000001}

func vh_chooseMtime(name string) int64 { return vh_mtimeChoices[v.Choose(name, len(vh_mtimeChoices))] }

func vh_isUnder(p, dir string) bool {
	return len(p) > len(dir)+1 && p[:len(dir)] == dir && p[len(dir)] == '/'
}

func vh_findEntry(snap []m.Entry, p string) *m.Entry {
	for i := range snap {
		if snap[i].Path == p {
			return &snap[i]
		}
	}
	return nil
}

func vh_sameGroup(snap []m.Entry, a, b string) bool {
	ea, eb := vh_findEntry(snap, a), vh_findEntry(snap, b)
	return ea != nil && eb != nil && ea.Ino == eb.Ino
}

// symCopyTree populates root+"/t" with a tree over {f, d, d/g, h, l, p}: t and d directories,
// f and d/g regular files, h a hard link to f, l a symlink, p a fifo or char device (parts selected by
// the bit mask S: 1 = d and d/g, 2 = h, 4 = l, 8 = p). Permission and special bits, uid, gid symbolic
// (non-zero ids when nz), file bytes symbolic, mtimes from a small set.
func vh_symCopyTree(root string, maxb int, sel int) {
	perm := func() uint32 { return v.U32("perm") & 07777 }
	id := func(name string) uint32 { return v.U32(name) }
	m.MkDir(root+"/t", perm(), id("uid"), id("gid"), 5)
	m.MkFile(root+"/t/f", v.Bytes("data", v.Choose("size", maxb+1)), perm(), id("uid"), id("gid"), vh_chooseMtime("mtime"))
	if v.Param("X", 0) != 0 {
		if v.Bool("xattr-f") {
			m.SetXattr(root+"/t/f", "user.f", v.Bytes("xf", 1))
		}
		if v.Bool("xattr-cap") {
			// a valid vfs_cap_data (revision 2, cap_net_bind_service permitted): the kernel drops it on chown
			m.SetXattr(root+"/t/f", "security.capability", []byte{0, 0, 0, 2, 0, 4, 0, 0, 0, 0, 0, 0, 0, 0, 0, 0, 0, 0, 0, 0})
		}
		if v.Bool("xattr-t") {
			m.SetXattr(root+"/t", "user.t", v.Bytes("xt", 1))
		}
	}
	if sel&1 != 0 {
		m.MkDir(root+"/t/d", perm(), id("uid"), id("gid"), 5)
		if v.Bool("has-d/g") {
			m.MkFile(root+"/t/d/g", v.Bytes("data", v.Choose("size", maxb+1)), perm(), id("uid"), id("gid"), vh_chooseMtime("mtime"))
		}
		m.SetMtime(root+"/t/d", vh_chooseMtime("mtime-d"))
	}
	if sel&2 != 0 && v.Bool("has-h") {
		m.MkLink(root+"/t/f", root+"/t/h")
	}
	if sel&4 != 0 && v.Bool("has-l") {
		m.MkSymlink(root+"/t/l", "f", id("uid"), id("gid"), vh_chooseMtime("mtime"))
	}
	if sel&8 != 0 {
		switch v.Choose("class-p", 4) {
		case 1:
			m.MkNode(root+"/t/p", m.KFifo, perm(), 0, id("uid"), id("gid"), vh_chooseMtime("mtime"))
		case 2:
			m.MkNode(root+"/t/p", m.KChar, perm(), 0x10012c, id("uid"), id("gid"), vh_chooseMtime("mtime")) // char device 1:300
		case 3:
			m.MkNode(root+"/t/p", m.KBlock, perm(), 0x0702, id("uid"), id("gid"), vh_chooseMtime("mtime")) // block device 7:2
		}
	}
	m.SetMtime(root+"/t", vh_chooseMtime("mtime-t"))
}

func vh_xattrsEqual(a, b *m.Entry) bool {
	if len(a.XKeys) != len(b.XKeys) {
		return false
	}
	ok := true
	for i, k := range a.XKeys {
		found := false
		for j, k2 := range b.XKeys {
			if k == k2 {
				found = true
				ok = v.And(ok, string(a.XVals[i]) == string(b.XVals[j]))
			}
		}
		ok = v.And(ok, found)
	}
	return ok
}
