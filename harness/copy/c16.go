package fs

import (
	"context"
	gofs "io/fs"

	"github.com/tonistiigi/fsutil"
	"github.com/tonistiigi/fsutil/zz_verif/m"
	"github.com/tonistiigi/fsutil/zz_verif/v"
)

// reference pattern semantics, written from the statement (literal, "x/**", "**/y", "!")
type vh_refPattern struct {
	excl bool
	text string
}

func vh_parseRef(p string) vh_refPattern {
	if len(p) > 0 && p[0] == '!' {
		return vh_refPattern{true, p[1:]}
	}
	return vh_refPattern{false, p}
}

func vh_parentOf(p string) string {
	for i := len(p) - 1; i >= 0; i-- {
		if p[i] == '/' {
			return p[:i]
		}
	}
	return ""
}

func vh_refMatchOne(p vh_refPattern, path string) bool {
	t := p.text
	if len(t) >= 3 && t[len(t)-3:] == "/**" {
		pre := t[:len(t)-2]
		return len(path) >= len(pre) && path[:len(pre)] == pre
	}
	if len(t) >= 3 && t[:3] == "**/" {
		suf := t[2:]
		if len(path) >= len(suf) && path[len(path)-len(suf):] == suf {
			return true
		}
		return path == suf[1:]
	}
	return path == t
}

func vh_refMatchNaive(pats []vh_refPattern, path string) bool {
	matched := false
	for _, p := range pats {
		mm := vh_refMatchOne(p, path)
		for q := vh_parentOf(path); !mm && q != ""; q = vh_parentOf(q) {
			mm = vh_refMatchOne(p, q)
		}
		if mm {
			matched = !p.excl
		}
	}
	return matched
}

var vh_c16Templates = []string{"a", "b", "a/b", "a/a", "a/b/a", "!a", "!a/b", "a/**", "**/b", "!a/**", "!**/b", "!a/b/a"}

func vh_choosePatterns(tag string, max int) []string {
	n := v.Choose(tag+"-n", max+1)
	out := make([]string, n)
	for i := range out {
		out[i] = vh_c16Templates[v.Choose(tag, len(vh_c16Templates))]
	}
	return out
}

var vh_letters = []string{"a", "b", "c"}

// VH_C16_select: with include and exclude patterns a copy writes exactly the entries the filtered
// walk of the same tree reports (asserted unconditionally) and, outside the class where the pinned
// matcher's parent-threaded evaluation differs from the statement's naive reference, exactly the
// reference set; a directory without a selected descendant is not created; ancestors created on
// demand carry the source directory's mode and owner.
func VH_C16_select() {
	m.Reset()
	src, dst := m.Root("src"), m.Root("dst")
	// tree X/{P, PP/ (empty), Q/{R}}, Y with names from {a, b, c}, siblings ascending
	// one concrete tree a/{a, b/{a}}, b (FIX=1): every template names something in it
	x, y, p, q, r := "a", "b", "a", "b", "a"
	if v.Param("FIX", 0) == 0 {
		xi, yi := v.Choose("X", 2), 0
		yi = xi + 1 + v.Choose("Y", 2-xi)
		pi := v.Choose("P", 2)
		qi := pi + 1 + v.Choose("Q", 2-pi)
		x, y, p, q, r = vh_letters[xi], vh_letters[yi], vh_letters[pi], vh_letters[qi], vh_letters[v.Choose("R", 3)]
	}
	m.MkDir(src+"/"+x, 0751, 3, 4, 5)
	m.MkFile(src+"/"+x+"/"+p, []byte("p"), 0644, 1, 1, 9000000000)
	// an empty directory between P and Q in listing order (a < aa < b < bb < c)
	e := x + "/" + p + p
	m.MkDir(src+"/"+e, 0700, 7, 8, 5)
	m.MkDir(src+"/"+x+"/"+q, 0715, 5, 6, 5)
	m.MkFile(src+"/"+x+"/"+q+"/"+r, []byte("r"), 0644, 1, 1, 9000000000)
	m.MkFile(src+"/"+y, []byte("y"), 0644, 1, 1, 9000000000)
	// distinct xattrs on the directories and on the files below them (an ancestor created on demand
	// must get its own, not a descendant's)
	m.SetXattr(src+"/"+x, "user.dx", []byte("1"))
	m.SetXattr(src+"/"+x+"/"+q, "user.dq", []byte("2"))
	m.SetXattr(src+"/"+x+"/"+q+"/"+r, "user.fr", []byte("3"))
	m.SetXattr(src+"/"+x+"/"+p, "user.fp", []byte("4"))
	m.SetMtime(src+"/"+x+"/"+q, 8000000000)
	m.SetMtime(src+"/"+x, 8000000000)
	all := []string{x, x + "/" + p, e, x + "/" + q, x + "/" + q + "/" + r, y}
	isDir := map[string]bool{x: true, e: true, x + "/" + q: true}

	incS, excS := vh_choosePatterns("inc", v.Param("NI", 1)), vh_choosePatterns("exc", v.Param("NE", 1))
	popFile := false
	if v.Param("POP", 0) != 0 && v.Bool("populated") {
		m.MkDir(dst+"/"+x, 0700, 9, 9, 5)
		if v.Param("POP", 0) >= 2 {
			// ... and an older file where the source has the file P
			m.MkFile(dst+"/"+x+"/"+p, []byte("old"), 0600, 9, 9, 9000000000)
			popFile = true
		}
		v.Cover("populated-destination")
	}
	before := m.Snapshot(dst)
	ci := CopyInfo{IncludePatterns: incS, ExcludePatterns: excS, CopyDirContents: true}
	err := Copy(context.Background(), src, "/", dst, "/", WithCopyInfo(ci))
	v.Assert(err == nil, "copy with include/exclude patterns succeeds")
	if err != nil {
		return
	}
	after := m.Snapshot(dst)

	// what the real filtered walk reports for the same tree and patterns
	walked := map[string]bool{}
	err = fsutil.Walk(context.Background(), src, &fsutil.FilterOpt{IncludePatterns: incS, ExcludePatterns: excS}, func(path string, fi gofs.FileInfo, err error) error {
		if err != nil {
			return err
		}
		walked[path] = true
		return nil
	})
	v.Assert(err == nil, "filtered walk of the source succeeds")

	var inc, exc []vh_refPattern
	for _, s := range incS {
		inc = append(inc, vh_parseRef(s))
	}
	for _, s := range excS {
		exc = append(exc, vh_parseRef(s))
	}
	keep := map[string]bool{}
	for _, e := range all {
		included := len(inc) == 0 || vh_refMatchNaive(inc, e)
		excluded := len(exc) > 0 && vh_refMatchNaive(exc, e)
		keep[e] = included && !excluded
	}
	sameAsRef := true
	for _, e := range all {
		want := keep[e]
		for _, o := range all {
			if keep[o] && vh_isUnder(o, e) {
				want = true
			}
		}
		copied := vh_findEntry(after, e) != nil && (vh_findEntry(before, e) == nil || !isDir[e])
		if vh_findEntry(before, e) != nil {
			copied = walked[e] // a pre-existing directory tells nothing; fall back to the walk
		}
		v.Assert(copied == walked[e], "the set of copied paths equals the set the filtered walk reports")
		if copied != want {
			sameAsRef = false
		}
		if copied && isDir[e] && !keep[e] && vh_findEntry(before, e) == nil {
			v.Cover("on-demand-ancestor")
			s, d := vh_findEntry(m.Snapshot(src), e), vh_findEntry(after, e)
			v.Assert(d.Perm == s.Perm && d.Uid == s.Uid && d.Gid == s.Gid, "an ancestor created on demand carries the source directory's mode and owner")
			sameX := len(d.XKeys) == len(s.XKeys)
			for j := range s.XKeys {
				if j < len(d.XKeys) {
					sameX = sameX && d.XKeys[j] == s.XKeys[j] && string(d.XVals[j]) == string(s.XVals[j])
				}
			}
			v.Assert(sameX, "an ancestor created on demand carries the source directory's xattrs")
		}
	}
	if popFile {
		d := vh_findEntry(after, x+"/"+p)
		if walked[x+"/"+p] {
			v.Assert(d != nil && string(d.Data) == "p", "a selected file replaces the older destination file at its path")
		} else {
			v.Cover("unselected-over-existing")
			v.Assert(d != nil && string(d.Data) == "old" && d.Uid == 9, "a destination entry at the path of an unselected source entry stays untouched")
		}
	}
	v.Assert(len(after) <= len(all), "nothing outside the source's paths is created")
	// classify: does some later negated pattern match an ancestor of an entry matched by an earlier pattern?
	inClass := false
	for _, lst := range [][]vh_refPattern{inc, exc} {
		for i, pi := range lst {
			for j := i + 1; j < len(lst); j++ {
				pj := lst[j]
				if pi.excl == pj.excl {
					continue
				}
				for _, e := range all {
					if !vh_refMatchOne(pi, e) {
						continue
					}
					for a := vh_parentOf(e); a != ""; a = vh_parentOf(a) {
						if vh_refMatchOne(pj, a) {
							inClass = true
						}
					}
				}
			}
		}
	}
	if inClass {
		v.Cover("incremental-class")
		v.Assert(sameAsRef, "the copied set equals the naive reference selection [class: negated pattern on an ancestor skipped by the incremental matcher]")
	} else {
		v.Cover("agreeing-class")
		v.Assert(sameAsRef, "the copied set equals the naive reference selection")
	}
}
