package fs

import (
	"context"
	"time"

	"github.com/tonistiigi/fsutil/zz_verif/m"
	"github.com/tonistiigi/fsutil/zz_verif/v"
)

func vh_entryEqual(s, d *m.Entry, withMode bool) bool {
	ok := v.And(d.Kind == s.Kind, d.Uid == s.Uid, d.Gid == s.Gid, d.Mtime == s.Mtime, d.Target == s.Target, string(d.Data) == string(s.Data), d.Rdev == s.Rdev)
	if withMode {
		ok = v.And(ok, d.Perm == s.Perm)
	}
	return ok
}

// VH_C13_single: copying a single file, a single symlink (followed or not), or a sub-directory,
// to a destination path whose parents do not exist yet: the entry is reproduced (a symlink is
// copied, not followed, unless follow-links is on); directories the call had to create above the
// target get the requested owner and timestamp.
func VH_C13_single() {
	m.Reset()
	src, dst := m.Root("src"), m.Root("dst")
	vh_symCopyTree(src, 1, 1|4) // f, d, d/g, l -> f
	setgidRoot := v.Bool("setgid-dst-root")
	if setgidRoot {
		// the destination root is set-group-ID with a foreign group: whatever Copy creates below it
		// inherits that group unless it is explicitly re-owned
		m.SetOwnerMode(dst, 02775, 0, 4321)
		m.SetMtime(dst, 5)
	}
	srcSnap := m.Snapshot(src)
	what := v.Choose("what", 4) // 0 file, 1 symlink, 2 symlink followed, 3 sub-directory
	nested := v.Bool("nested-dst")
	withOpts := v.Bool("chown+utime")
	var ci CopyInfo
	var wantUID uint32
	if withOpts {
		wantUID = v.U32("chown-uid")
		v.Assume(wantUID < 1<<31)
		if v.Bool("chown-to-own-ids") {
			wantUID = 0 // the ids of the copying process itself
		}
		u := int(wantUID)
		ci.Chown = func(*User) (*User, error) { return &User{UID: u, GID: u}, nil }
		tm := time.Unix(1234, 987654321) // nanosecond precision: not a whole micro- or millisecond
		ci.Utime = &tm
	}
	srcPath := []string{"t/f", "t/l", "t/l", "t/d"}[what]
	if what == 1 && vh_findEntry(srcSnap, "t/l") == nil {
		return
	}
	if what == 2 {
		if vh_findEntry(srcSnap, "t/l") == nil {
			return
		}
		ci.FollowLinks = true
	}
	dstPath := "g"
	if nested {
		dstPath = "a/b/g"
	}
	err := Copy(context.Background(), src, srcPath, dst, dstPath, WithCopyInfo(ci))
	v.Assert(err == nil, "copying a single entry succeeds")
	if err != nil {
		return
	}
	after := m.Snapshot(dst)
	want := vh_findEntry(srcSnap, srcPath)
	if what == 2 {
		want = vh_findEntry(srcSnap, "t/f") // the link target
	}
	got := vh_findEntry(after, dstPath)
	if got == nil {
		v.Assert(false, "the entry exists at the destination path")
		return
	}
	if withOpts {
		v.Cover("options")
		v.Assert(got.Kind == want.Kind && string(got.Data) == string(want.Data) && got.Target == want.Target, "the copied entry has the source's type, bytes and link target")
		v.Assert(got.Uid == wantUID && got.Gid == wantUID && got.Mtime == 1234987654321, "the copied entry carries the requested owner and timestamp")
	} else {
		v.Assert(vh_entryEqual(want, got, want.Kind != m.KSymlink), "the copied entry equals the source entry (a symlink is copied, not followed)")
	}
	if what == 3 {
		v.Cover("sub-directory")
		n := 0
		for i := range srcSnap {
			if vh_isUnder(srcSnap[i].Path, "t/d") {
				n++
				d := vh_findEntry(after, dstPath+srcSnap[i].Path[len("t/d"):])
				v.Assert(d != nil && string(d.Data) == string(srcSnap[i].Data), "the contents of a copied sub-directory are reproduced")
			}
		}
		m2 := 0
		for i := range after {
			if vh_isUnder(after[i].Path, dstPath) {
				m2++
			}
		}
		v.Assert(n == m2, "nothing else appears below the copied sub-directory")
	}
	if nested {
		v.Cover("created-parents")
		for _, p := range []string{"a", "a/b"} {
			d := vh_findEntry(after, p)
			if d == nil || d.Kind != m.KDir {
				v.Assert(false, "missing parents of the destination path are created as directories")
				continue
			}
			if withOpts {
				v.Assert(d.Uid == wantUID && d.Gid == wantUID && d.Mtime == 1234987654321, "directories created above the target get the requested owner and timestamp")
			}
		}
	}
}
