package fs

import (
	"context"

	"github.com/tonistiigi/fsutil/zz_verif/m"
	"github.com/tonistiigi/fsutil/zz_verif/v"
)

var vh_srcLinkTargets = []string{"f", "/f", "../out/secret", "/../out/secret", "nonexistent", "sl", "../out/sub", "d"}
var vh_dstLinkTargets = []string{"../out/secret", "../out/newfile", "../out/sub", "/out/secret", "nowhere"}

func vh_snapEqual(a, b []m.Entry) bool {
	if len(a) != len(b) {
		return false
	}
	ok := true
	for i := range a {
		x, y := a[i], b[i]
		ok = v.And(ok, x.Path == y.Path, x.Kind == y.Kind, x.Perm == y.Perm, x.Uid == y.Uid, x.Gid == y.Gid, x.Mtime == y.Mtime,
			string(x.Data) == string(y.Data), x.Target == y.Target, x.Nlink == y.Nlink)
	}
	return ok
}

// VH_C14_contain: whatever symlinks the source tree, the destination tree and the path arguments
// contain (absolute, '..'-laden, dangling, looping, pointing at an outside file or directory), a
// copy on the model file system creates, changes or removes nothing outside the destination root
// and reads no file content outside the source root; a symlink met in the destination is replaced
// or reported as a conflict, never written through.
func VH_C14_contain() {
	// MODE 0: every source-side link target and path argument against a clean destination;
	// MODE 1: every destination-side link placement against a fixed source link;
	// MODE 2: both sides varied over reduced candidate lists
	mode := v.Param("MODE", 0)
	nSrc, nDst := len(vh_srcLinkTargets), len(vh_dstLinkTargets)
	if mode == 1 {
		nSrc = 1
	}
	if mode == 2 {
		nSrc, nDst = 4, 2
	}
	if mode == 3 {
		// include patterns: directories that are not selected themselves are created late, when a
		// selected descendant turns up
		nSrc = 1
	}
	m.Reset()
	out, src, dst := m.Root("out"), m.Root("src"), m.Root("dst")
	m.MkFile(out+"/secret", []byte("s"), 0600, 1, 1, 5)
	m.MkDir(out+"/sub", 0700, 1, 1, 5)
	m.MkFile(out+"/sub/k", []byte("k"), 0600, 1, 1, 5)
	m.MkFile(out+"/sub/g", []byte("outside g"), 0600, 1, 1, 5) // same name as the source file d/g
	m.SetMtime(out+"/sub", 5)
	m.SetMtime(out, 5)

	m.MkFile(src+"/f", v.Bytes("data", 1), 0644, 2, 2, 7)
	m.MkDir(src+"/d", 0755, 2, 2, 7)
	m.MkFile(src+"/d/g", v.Bytes("data", 1), 0644, 2, 2, 7)
	m.MkSymlink(src+"/sl", vh_srcLinkTargets[v.Choose("src-link", nSrc)], 2, 2, 7)
	if mode != 1 && v.Bool("src-d/sl") {
		m.MkSymlink(src+"/d/sl", vh_srcLinkTargets[v.Choose("src-link2", nSrc)], 2, 2, 7)
	}

	nState := 3
	if mode == 0 {
		nState = 1
	}
	switch v.Choose("dst-f", nState) {
	case 1:
		m.MkSymlink(dst+"/f", vh_dstLinkTargets[v.Choose("dst-link-f", nDst)], 3, 3, 7)
	case 2:
		m.MkFile(dst+"/f", []byte("old"), 0600, 3, 3, 7)
	}
	switch v.Choose("dst-d", nState) {
	case 1:
		m.MkSymlink(dst+"/d", vh_dstLinkTargets[v.Choose("dst-link-d", nDst)], 3, 3, 7)
	case 2:
		m.MkDir(dst+"/d", 0700, 3, 3, 7)
		if v.Bool("dst-d/g-link") {
			m.MkSymlink(dst+"/d/g", vh_dstLinkTargets[v.Choose("dst-link-g", nDst)], 3, 3, 7)
		}
	}
	if mode != 0 && v.Bool("dst-x-link") {
		m.MkSymlink(dst+"/x", vh_dstLinkTargets[v.Choose("dst-link-x", nDst)], 3, 3, 7)
	}
	outBefore := m.Snapshot(out)
	srcBefore := m.Snapshot(src)
	allBefore := m.SnapshotAll()
	m.ClearOps()

	nSP, nDP := 7, 4
	if mode == 1 {
		nSP, nDP = 2, 2
	}
	if mode == 3 {
		nSP, nDP = 1, 1
	}
	srcPath := []string{".", "f", "d", "sl", "sl/g", "..", "d/.."}[v.Choose("src-path", nSP)]
	dstPath := []string{".", "x", "d", "x/y"}[v.Choose("dst-path", nDP)]
	ci := CopyInfo{CopyDirContents: v.Bool("dir-contents"), AlwaysReplaceExistingDestPaths: v.Bool("always-replace")}
	if mode == 3 {
		ci.IncludePatterns = [][]string{{"d/g"}, {"d/*"}, {"**/g"}}[v.Choose("include", 3)]
		v.Cover("include-patterns")
	}
	if mode != 1 && mode != 3 {
		ci.FollowLinks = v.Bool("follow")
		if v.Bool("mode-option") {
			// a numeric mode requested for everything copied (it must never reach a link's target)
			perm := 0751
			ci.Mode = &perm
			v.Cover("mode-option")
		}
	}
	err := Copy(context.Background(), src, srcPath, dst, dstPath, WithCopyInfo(ci))
	v.Observe("failed", err != nil)
	if err != nil {
		v.Cover("error")
	} else {
		v.Cover("success")
	}
	v.Assert(vh_snapEqual(outBefore, m.Snapshot(out)), "nothing outside the destination root is created, changed or removed")
	v.Assert(vh_snapEqual(srcBefore, m.Snapshot(src)), "the source tree is not modified")
	// nothing appears next to the roots either (the parent directory of the destination root included)
	var outsideBefore, outsideAfter []m.Entry
	for _, e := range allBefore {
		if e.Path != "dst" && !vh_isUnder(e.Path, "dst") {
			outsideBefore = append(outsideBefore, e)
		}
	}
	for _, e := range m.SnapshotAll() {
		if e.Path != "dst" && !vh_isUnder(e.Path, "dst") {
			outsideAfter = append(outsideAfter, e)
		}
	}
	v.Assert(len(outsideBefore) == len(outsideAfter), "no entry appears or disappears outside the destination root (its parent directory included)")
	for _, op := range m.Ops() {
		if op.Kind == "read" {
			v.Assert(vh_isUnder(op.Path, src), "file content is only read inside the source root")
		} else {
			v.Assert(op.Path == dst || vh_isUnder(op.Path, dst), "every mutating operation resolves inside the destination root")
		}
	}
}

// VH_C14_wildcard: containment for wildcard sources. "t/x*" is copied to a destination path that
// may not exist yet; the matches are files, directories and symlinks whose targets point outside
// the destination root (as resolved from where the copy puts them). Whatever the first match turns
// the destination path into, later matches are not written through it: nothing outside the
// destination root is created, changed or removed.
func VH_C14_wildcard() {
	m.Reset()
	out, src, dst := m.Root("out"), m.Root("src"), m.Root("dst")
	m.MkFile(out+"/secret", []byte("s"), 0600, 1, 1, 5)
	m.MkDir(out+"/sub", 0700, 1, 1, 5)
	m.SetMtime(out, 5)
	m.MkDir(src+"/t", 0755, 2, 2, 7)
	targets := []string{"../out/sub", "../out/secret", "../../out/sub", out + "/sub", "nowhere"}
	for _, n := range []string{"x1", "x2", "x3"} {
		switch v.Choose("kind-"+n, 4) {
		case 1:
			m.MkFile(src+"/t/"+n, []byte(n), 0644, 2, 2, 7)
		case 2:
			m.MkDir(src+"/t/"+n, 0755, 2, 2, 7)
			m.MkFile(src+"/t/"+n+"/k", []byte("k"), 0644, 2, 2, 7)
		case 3:
			m.MkSymlink(src+"/t/"+n, targets[v.Choose("target-"+n, len(targets))], 2, 2, 7)
			v.Cover("symlink-match")
		}
	}
	switch v.Choose("dst-state", 3) {
	case 1:
		m.MkDir(dst+"/o", 0700, 3, 3, 7)
	case 2:
		m.MkDir(dst+"/o", 0700, 3, 3, 7)
		m.MkDir(dst+"/o/p", 0700, 3, 3, 7)
	}
	dstArg := []string{"o", "o/", "o/p", "n/m"}[v.Choose("dst-arg", 4)]
	allBefore := m.SnapshotAll()
	m.ClearOps()
	ci := CopyInfo{AllowWildcards: true, CopyDirContents: v.Bool("dir-contents"), AlwaysReplaceExistingDestPaths: v.Bool("always-replace")}
	err := Copy(context.Background(), src, "t/x*", dst, dstArg, WithCopyInfo(ci))
	v.Observe("failed", err != nil)
	var before, after []m.Entry
	for _, e := range allBefore {
		if e.Path != "dst" && !vh_isUnder(e.Path, "dst") {
			before = append(before, e)
		}
	}
	for _, e := range m.SnapshotAll() {
		if e.Path != "dst" && !vh_isUnder(e.Path, "dst") {
			after = append(after, e)
		}
	}
	v.Assert(vh_snapEqual(before, after), "a wildcard copy creates, changes or removes nothing outside the destination root")
	for _, op := range m.Ops() {
		if op.Kind != "read" {
			v.Assert(op.Path == dst || vh_isUnder(op.Path, dst), "every mutating operation of a wildcard copy resolves inside the destination root")
		}
	}
	v.Cover("done")
}

// VH_C14_wildcard2: a wildcard in a middle component ("t/*/*") brings entries with the same base
// name from different directories to the same destination path, one replacing the other, together
// with further names of their inodes: a regular file a/f, an entry b/f (file or symlink pointing
// outside) that replaces it at <dst>/f, and c/g, a hard link of a/f, which the copier re-creates as
// a link to whatever it wrote for a/f. Nothing outside the destination root may change.
func VH_C14_wildcard2() {
	m.Reset()
	out, src, dst := m.Root("out"), m.Root("src"), m.Root("dst")
	m.MkFile(out+"/secret", []byte("s"), 0600, 1, 1, 5)
	m.MkDir(out+"/sub", 0700, 1, 1, 5)
	m.SetMtime(out, 5)
	m.MkDir(src+"/t", 0755, 2, 2, 7)
	for _, d := range []string{"a", "b", "c"} {
		m.MkDir(src+"/t/"+d, 0755, 2, 2, 7)
	}
	m.MkFile(src+"/t/a/f", []byte("af"), 0644|(v.U32("special")&07000), 2, 2, 7)
	targets := []string{"../out/secret", out + "/secret", "../out/sub", "nowhere"}
	switch v.Choose("kind-b/f", 3) {
	case 1:
		m.MkFile(src+"/t/b/f", []byte("bf"), 0644, 2, 2, 7)
	case 2:
		m.MkSymlink(src+"/t/b/f", targets[v.Choose("target", len(targets))], 2, 2, 7)
		v.Cover("replaced-by-symlink")
	}
	if v.Bool("c/g-links-a/f") {
		m.MkLink(src+"/t/a/f", src+"/t/c/g")
		v.Cover("hardlink")
	} else {
		m.MkFile(src+"/t/c/g", []byte("cg"), 0644, 2, 2, 7)
	}
	if v.Bool("dst-o-exists") {
		m.MkDir(dst+"/o", 0700, 3, 3, 7)
	}
	allBefore := m.SnapshotAll()
	m.ClearOps()
	ci := CopyInfo{AllowWildcards: true, AlwaysReplaceExistingDestPaths: v.Bool("always-replace")}
	err := Copy(context.Background(), src, "t/*/*", dst, "o/", WithCopyInfo(ci))
	v.Observe("failed", err != nil)
	var before, after []m.Entry
	for _, e := range allBefore {
		if e.Path != "dst" && !vh_isUnder(e.Path, "dst") {
			before = append(before, e)
		}
	}
	for _, e := range m.SnapshotAll() {
		if e.Path != "dst" && !vh_isUnder(e.Path, "dst") {
			after = append(after, e)
		}
	}
	v.Assert(vh_snapEqual(before, after), "a wildcard copy with colliding names creates, changes or removes nothing outside the destination root")
	v.Cover("done")
}
