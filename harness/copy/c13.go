package fs

import (
	"context"
	"os"
	"time"

	"github.com/tonistiigi/fsutil"
	"github.com/tonistiigi/fsutil/zz_verif/m"
	"github.com/tonistiigi/fsutil/zz_verif/v"
)

// VH_C13_tree: Copy of a source directory into an empty destination root on the model file
// system reproduces it like cp -a: path set, types, bytes, symlink targets, permission and special
// bits, uid/gid, mtimes of files, symlinks and directories, device numbers, and hard-link groups;
// with options every copied entry carries the requested owner / octal mode (symlinks excepted) /
// timestamp, and the change notifier is called exactly once per non-directory with its
// destination path.
func VH_C13_tree() {
	maxb, sel, opt := v.Param("MAXB", 1), v.Param("S", 15), v.Param("OPT", 0)
	m.Reset()
	src, dst := m.Root("src"), m.Root("dst")
	vh_symCopyTree(src, maxb, sel)
	srcSnap := m.Snapshot(src)
	var ci CopyInfo
	var wantUID, wantGID uint32
	var wantMode uint32
	var wantTime int64
	if opt&1 != 0 {
		wantUID, wantGID = v.U32("chown-uid"), v.U32("chown-gid")
		v.Assume(wantUID < 1<<31 && wantGID < 1<<31)
		u, g := int(wantUID), int(wantGID)
		ci.Chown = func(*User) (*User, error) { return &User{UID: u, GID: g}, nil }
	}
	if opt&2 != 0 {
		wantMode = v.U32("mode") & 07777
		mi := int(wantMode)
		ci.Mode = &mi
	}
	modeStr := ""
	if opt&8 != 0 {
		modeStr = []string{"a+X", "go-w"}[v.Choose("modestr", 2)]
		ci.ModeStr = modeStr
	}
	if opt&4 != 0 {
		wantTime = 1234987654321
		tm := time.Unix(1234, 987654321) // nanosecond precision: not a whole micro- or millisecond
		ci.Utime = &tm
	}
	notified := map[string]int{}
	ci.ChangeFunc = func(kind fsutil.ChangeKind, p string, fi os.FileInfo, err error) error {
		notified[p]++
		return nil
	}
	err := Copy(context.Background(), src, "t", dst, "t", WithCopyInfo(ci))
	v.Assert(err == nil, "copy into an empty destination succeeds")
	if err != nil {
		return
	}
	dstSnap := m.Snapshot(dst)
	v.Assert(len(dstSnap) == len(srcSnap), "the copy has exactly the paths of the source")
	for i := range srcSnap {
		s := &srcSnap[i]
		d := vh_findEntry(dstSnap, s.Path)
		if d == nil {
			v.Assert(false, "every source path exists in the copy")
			continue
		}
		v.Assert(d.Kind == s.Kind, "entry types are equal")
		v.Assert(d.Target == s.Target, "symlink targets are copied, not followed")
		v.Assert(d.Rdev == s.Rdev, "device numbers are equal")
		if s.Kind != m.KSymlink {
			v.Assert(vh_xattrsEqual(s, d), "xattrs are equal")
		}
		if s.Kind == m.KFile {
			v.Assert(string(d.Data) == string(s.Data), "file bytes are equal")
		}
		if opt&1 != 0 {
			v.Assert(d.Uid == wantUID && d.Gid == wantGID, "every copied entry carries the requested owner")
		} else {
			v.Assert(d.Uid == s.Uid && d.Gid == s.Gid, "uid/gid are equal")
		}
		if s.Kind != m.KSymlink {
			if modeStr == "a+X" {
				// X: execute/search for everybody if the entry is a directory or already has an execute bit
				want := s.Perm
				if s.Kind == m.KDir || s.Perm&0111 != 0 {
					want |= 0111
				}
				v.Assert(d.Perm == want, "every copied entry carries the requested symbolic mode (a+X)")
			} else if modeStr == "go-w" {
				v.Assert(d.Perm == s.Perm&^0022, "every copied entry carries the requested symbolic mode (go-w)")
			} else if opt&2 != 0 {
				v.Assert(d.Perm == wantMode, "every copied entry (symlinks excepted) carries the requested octal mode")
			} else {
				v.Assert(d.Perm == s.Perm, "permission and setuid/setgid/sticky bits are equal")
			}
		}
		if opt&4 != 0 {
			v.Assert(d.Mtime == wantTime, "every copied entry carries the requested timestamp")
		} else {
			v.Assert(d.Mtime == s.Mtime, "mtimes of files, symlinks and directories are equal")
		}
		for k := range srcSnap {
			if k != i && srcSnap[k].Kind == m.KFile && s.Kind == m.KFile {
				v.Assert(vh_sameGroup(srcSnap, s.Path, srcSnap[k].Path) == vh_sameGroup(dstSnap, s.Path, srcSnap[k].Path), "files sharing an inode in the source share one in the copy")
			}
		}
		if s.Kind != m.KDir {
			v.Assert(notified["/"+s.Path] == 1, "the change notifier is called exactly once per non-directory, with its destination path")
		}
	}
	v.Cover("done")
}
