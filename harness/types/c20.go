package types

import (
	"github.com/tonistiigi/fsutil/zz_verif/v"
)

// ---- independent proto3 reference encoder (ascending field order, defaults omitted)

func vh_refVarint(b []byte, x uint64) []byte {
	for x >= 0x80 {
		b = append(b, byte(x)|0x80)
		x >>= 7
	}
	return append(b, byte(x))
}

func vh_refBytesField(b []byte, num int, data string) []byte {
	b = vh_refVarint(b, uint64(num<<3|2))
	b = vh_refVarint(b, uint64(len(data)))
	return append(b, data...)
}

func vh_refVarintField(b []byte, num int, x uint64) []byte {
	if x == 0 {
		return b
	}
	b = vh_refVarint(b, uint64(num<<3))
	return vh_refVarint(b, x)
}

func vh_refStat(s *Stat) []byte {
	var b []byte
	if s.Path != "" {
		b = vh_refBytesField(b, 1, s.Path)
	}
	b = vh_refVarintField(b, 2, uint64(s.Mode))
	b = vh_refVarintField(b, 3, uint64(s.Uid))
	b = vh_refVarintField(b, 4, uint64(s.Gid))
	b = vh_refVarintField(b, 5, uint64(s.Size))
	b = vh_refVarintField(b, 6, uint64(s.ModTime))
	if s.Linkname != "" {
		b = vh_refBytesField(b, 7, s.Linkname)
	}
	b = vh_refVarintField(b, 8, uint64(s.Devmajor))
	b = vh_refVarintField(b, 9, uint64(s.Devminor))
	for k, val := range s.Xattrs { // harnesses use at most one entry
		var e []byte
		e = vh_refBytesField(e, 1, k) // map entries always carry key and value
		e = vh_refBytesField(e, 2, string(val))
		b = vh_refBytesField(b, 10, string(e))
	}
	return b
}

func vh_refPacket(p *Packet) []byte {
	var b []byte
	b = vh_refVarintField(b, 1, uint64(p.Type))
	if p.Stat != nil {
		b = vh_refBytesField(b, 2, string(vh_refStat(p.Stat)))
	}
	b = vh_refVarintField(b, 3, uint64(p.ID))
	if len(p.Data) > 0 {
		b = vh_refBytesField(b, 4, string(p.Data))
	}
	return b
}

func vh_statFieldsEqual(a, b *Stat) bool {
	if a.Path != b.Path || a.Mode != b.Mode || a.Uid != b.Uid || a.Gid != b.Gid || a.Size != b.Size || a.ModTime != b.ModTime ||
		a.Linkname != b.Linkname || a.Devmajor != b.Devmajor || a.Devminor != b.Devminor || len(a.Xattrs) != len(b.Xattrs) {
		return false
	}
	for k, x := range a.Xattrs {
		y, ok := b.Xattrs[k]
		if !ok || string(x) != string(y) {
			return false
		}
	}
	return true
}

func vh_roundTripStat(s *Stat) {
	enc, err := s.MarshalVT()
	v.Assert(err == nil, "Stat.MarshalVT succeeds")
	v.Observe("enc", enc)
	v.Assert(len(enc) == s.SizeVT(), "Stat encoding has the announced size")
	v.Assert(string(enc) == string(vh_refStat(s)), "Stat encoding equals the reference proto3 encoding")
	strict, err := s.MarshalVTStrict()
	v.Assert(err == nil && string(strict) == string(enc), "strict and non-strict Stat encodings agree")
	var t Stat
	err = t.UnmarshalVT(enc)
	v.Assert(err == nil, "Stat.UnmarshalVT accepts the encoding")
	v.Assert(vh_statFieldsEqual(s, &t), "Stat round trip preserves every field")
	for _, val := range t.Xattrs {
		v.Assert(!v.Overlaps(val, enc), "decoded xattr value does not alias the input buffer")
	}
	v.Assert(s.EqualVT(&t) && vh_statFieldsEqual(s, s.CloneVT()), "EqualVT and CloneVT agree with field equality")
}

// VH_C20_stat_field: round trip and conformance with one field fully symbolic (all size classes).
func VH_C20_stat_field() {
	var s Stat
	switch v.Param("F", 2) {
	case 1:
		s.Path = v.String("path", v.Param("L", 2))
	case 2:
		s.Mode = v.U32("mode")
	case 3:
		s.Uid = v.U32("uid")
	case 4:
		s.Gid = v.U32("gid")
	case 5:
		s.Size = v.I64("size")
	case 6:
		s.ModTime = v.I64("mtime")
	case 7:
		s.Linkname = v.String("link", v.Param("L", 2))
	case 8:
		s.Devmajor = v.I64("major")
	case 9:
		s.Devminor = v.I64("minor")
	case 10:
		s.Xattrs = map[string][]byte{v.String("xk", v.Param("L", 1)): v.Bytes("xv", v.Param("L2", 1))}
	}
	vh_roundTripStat(&s)
	v.Cover("done")
}

func vh_class32(x uint32) bool { return v.Or(x < 0x80, x >= 1<<28) }
func vh_class64(x int64) bool  { return v.Or(v.And(x >= 0, x < 0x80), x < 0) }

// VH_C20_stat_all: all fields set together; two numeric fields (pair G) symbolic over the size
// classes {0, one byte, maximal}, the others fixed to one value of each class; strings of L bytes (any
// byte values), one optional xattr.
func VH_C20_stat_all() {
	l := v.Param("L", 1)
	g := v.Param("G", 0) // which group of numeric fields is symbolic (the others take fixed values of each class)
	s := Stat{Path: v.String("path", l), Linkname: v.String("link", l), Mode: 0644, Uid: 1 << 30, Size: -1, ModTime: 5, Devmajor: 0, Devminor: 1 << 40}
	switch g {
	case 0:
		s.Mode, s.Size = v.U32("mode"), v.I64("size")
		v.Assume(v.And(vh_class32(s.Mode), vh_class64(s.Size)))
	case 1:
		s.Uid, s.Gid = v.U32("uid"), v.U32("gid")
		v.Assume(v.And(vh_class32(s.Uid), vh_class32(s.Gid)))
	case 2:
		s.ModTime, s.Devmajor = v.I64("mtime"), v.I64("major")
		v.Assume(v.And(vh_class64(s.ModTime), vh_class64(s.Devmajor)))
	case 3:
		s.Devminor, s.Mode = v.I64("minor"), v.U32("mode")
		v.Assume(v.And(vh_class64(s.Devminor), vh_class32(s.Mode)))
	}
	if v.Bool("xattr") {
		s.Xattrs = map[string][]byte{v.String("xk", 1): v.Bytes("xv", 1)}
	}
	vh_roundTripStat(&s)
	v.Cover("done")
}

// VH_C20_packet: packet round trip and conformance: type, id full width, data of D bytes, optional
// nested stat.
func VH_C20_packet() {
	d := v.Param("D", 2)
	p := Packet{Type: Packet_PacketType(v.I32("type")), ID: v.U32("id"), Data: v.Bytes("data", d)}
	v.Assume(vh_class32(uint32(p.Type)) || p.Type < 8)
	if v.Bool("stat") {
		p.Stat = &Stat{Path: v.String("path", 1), Mode: v.U32("mode")}
		v.Assume(vh_class32(p.Stat.Mode))
	}
	enc, err := p.MarshalVT()
	v.Assert(err == nil, "Packet.MarshalVT succeeds")
	v.Observe("enc", enc)
	v.Assert(len(enc) == p.SizeVT(), "Packet encoding has the announced size")
	v.Assert(string(enc) == string(vh_refPacket(&p)), "Packet encoding equals the reference proto3 encoding")
	var q Packet
	err = q.UnmarshalVT(enc)
	v.Assert(err == nil, "Packet.UnmarshalVT accepts the encoding")
	v.Assert(q.Type == p.Type && q.ID == p.ID && string(q.Data) == string(p.Data), "Packet round trip preserves type, id, data")
	v.Assert((q.Stat == nil) == (p.Stat == nil), "Packet round trip preserves presence of the stat")
	if p.Stat != nil && q.Stat != nil {
		v.Assert(vh_statFieldsEqual(p.Stat, q.Stat), "Packet round trip preserves the nested stat")
	}
	v.Assert(!v.Overlaps(q.Data, enc), "decoded Data does not alias the input buffer")
	v.Cover("done")
}

// VH_C20_decode_packet: UnmarshalVT on every byte string of length N: returns (no panic, no
// out-of-range access), allocates no more than the input length, result does not alias the input,
// and whatever it accepted re-encodes to something it accepts again with equal fields.
func VH_C20_decode_packet() {
	n := v.Param("N", 3)
	in := v.Bytes("in", n)
	v.AllocLimit(n + 16)
	var p Packet
	err := p.UnmarshalVT(in)
	v.Observe("ok", err == nil)
	if err != nil {
		v.Cover("rejected")
		return
	}
	v.Cover("accepted")
	v.Assert(!v.Overlaps(p.Data, in), "decoded Data does not alias the input buffer")
	v.Assert(len(p.Data) <= n, "decoded Data is no longer than the input")
	if p.Stat != nil {
		v.Cover("nested-stat")
		v.Assert(len(p.Stat.Path) <= n && len(p.Stat.Linkname) <= n, "decoded strings are no longer than the input")
	}
	enc, err := p.MarshalVT()
	v.Assert(err == nil, "re-encoding a decoded packet succeeds")
	var q Packet
	v.Assert(q.UnmarshalVT(enc) == nil, "re-encoded packet decodes")
	v.Assert(q.Type == p.Type && q.ID == p.ID && string(q.Data) == string(p.Data), "decode/encode/decode is stable")
}

// VH_C20_decode_stat: the same for Stat (including the xattr map entry decoder).
func VH_C20_decode_stat() {
	n := v.Param("N", 3)
	in := v.Bytes("in", n)
	v.AllocLimit(n + 16)
	var s Stat
	err := s.UnmarshalVT(in)
	v.Observe("ok", err == nil)
	if err != nil {
		v.Cover("rejected")
		return
	}
	v.Cover("accepted")
	v.Assert(len(s.Path) <= n && len(s.Linkname) <= n, "decoded strings are no longer than the input")
	for _, val := range s.Xattrs {
		v.Cover("xattr")
		v.Assert(!v.Overlaps(val, in), "decoded xattr value does not alias the input buffer")
	}
	enc, err := s.MarshalVT()
	v.Assert(err == nil, "re-encoding a decoded stat succeeds")
	var t Stat
	v.Assert(t.UnmarshalVT(enc) == nil, "re-encoded stat decodes")
	v.Assert(vh_statFieldsEqual(&s, &t), "decode/encode/decode is stable")
}

var vh_boundaryLens = []int{0, 1, 2, 24, 60, 100, 118, 119, 120, 121, 122, 123, 124, 125, 126, 127, 128, 129, 130}
var vh_boundaryLensBig = []int{16370, 16372, 16374, 16376, 16378, 16379, 16380, 16381, 16382, 16383, 16384, 16385, 16386}

func vh_patternString(tag string, n int) string {
	b := make([]byte, n)
	for i := range b {
		b[i] = byte(i*11 + 5)
	}
	if n > 0 {
		b[0] = v.U8(tag)
	}
	return string(b)
}

// VH_C20_stat_lengths: round trip and conformance for length-delimited fields whose lengths sit
// at the varint size-class boundaries (one- to two-byte at 128, two- to three-byte at 16384):
// the path / link name (F=1, F=7) or an xattr entry whose key and value lengths are chosen
// independently from the boundary set (F=10), so that the value, the key and the whole map entry
// cross a boundary separately. Contents are a fixed pattern with a symbolic first byte.
func VH_C20_stat_lengths() {
	lens := vh_boundaryLens
	if v.Param("BIG", 0) != 0 {
		lens = vh_boundaryLensBig
	}
	var s Stat
	switch v.Param("F", 10) {
	case 1:
		s.Path = vh_patternString("p0", lens[v.Choose("pl", len(lens))])
	case 7:
		s.Linkname = vh_patternString("l0", lens[v.Choose("ll", len(lens))])
	case 10:
		kl := vh_boundaryLens[v.Choose("kl", len(vh_boundaryLens))]
		vl := lens[v.Choose("vl", len(lens))]
		s.Xattrs = map[string][]byte{vh_patternString("k0", kl): []byte(vh_patternString("v0", vl))}
	}
	vh_roundTripStat(&s)
	// the same stat nested in a packet (the length prefix of the nested message crosses too)
	p := &Packet{Type: PACKET_STAT, Stat: &s}
	enc, err := p.MarshalVT()
	v.Assert(err == nil && len(enc) == p.SizeVT(), "Packet encoding has the announced size")
	v.Assert(string(enc) == string(vh_refPacket(p)), "Packet encoding equals the reference proto3 encoding")
	buf := make([]byte, p.SizeVT())
	n, err := p.MarshalTo(buf)
	v.Assert(err == nil && n == len(buf) && string(buf) == string(enc), "MarshalTo fills exactly Size() bytes with the same encoding")
	var q Packet
	v.Assert(q.UnmarshalVT(enc) == nil && q.Stat != nil && vh_statFieldsEqual(&s, q.Stat), "Packet round trip preserves the nested stat")
	v.Cover("done")
}
