#!/bin/bash
# re-runs every quick check with default settings so that the committed evidence files describe a
# standard run (VERIF_SEED=1, default witness sample count)
cd "$(dirname "$0")"
unset VERIF_SAMPLES
export VERIF_SEED=1 VERIF_TIER=quick
for c in C01 C02 C03 C04 C05 C06 C07 C08 C09 C10 C11 C12 C13 C14 C15 C16 C17 C18 C19 C20; do
  s=$(date +%s); ./check $c --tier quick >/tmp/regen_$c.log 2>&1; rc=$?; e=$(date +%s)
  echo "$c exit=$rc wall=$((e-s))s $(grep -c KNOWN-FINDING /tmp/regen_$c.log) known"
done
