"""Registry of obligations per property. Each obligation names one harness entry point (an
in-package Go function overlaid on /repo) with its bounds; `./check <id>` runs them with gosym."""

MOD = "github.com/tonistiigi/fsutil"

def ob(harness, params=None, tiers=("quick", "thorough"), pkg=MOD, covers=(), bounds="", **kw):
    d = dict(harness=harness, params=params or {}, tiers=list(tiers), pkg=pkg, covers=list(covers), bounds=bounds)
    d.update(kw)
    return d

Q, T = ("quick",), ("thorough",)

def lens(n):
    return [(a, b) for a in range(n + 1) for b in range(n + 1)]

CHECKS = {}

CHECKS["C12"] = dict(
    level_text="For every byte string pair / triple and every change sequence inside the stated bounds the solver shows that no feasible path of the real ComparePath / Validator.HandleChange code violates the order axioms or disagrees with the reference acceptor written from the statement; outside the bounds nothing is claimed.",
    level_note="Bounds: paths <=4 bytes (quick) / <=6 (thorough) for the order, sequences of 2 changes x <=3 bytes (quick) / 3 x <=4 (thorough). Trusted: go/ssa construction, the gosym interpreter (validated on every run by replaying sampled paths natively and comparing observed values), z3; pkg/errors and fmt are opaque-error models.",
    assumptions=[
        "bounded: paths of at most N bytes (all 256 byte values per position), sequences of at most K changes; longer inputs are outside the claim",
        "pkg/errors and fmt are replaced by opaque-error models (error text is never asserted)",
        "filepath.Clean/IsAbs/Dir/Base/Join, strings.HasPrefix, sort.Search are interpreted from their real SSA",
        "that every reachable validator state equals the state after some accepted sequence is covered only up to K",
    ],
    obligations=
        [ob("VH_C12_order", dict(LP=a, LQ=b), Q, covers=["done"], bounds="all byte strings |p|=%d,|q|=%d" % (a, b)) for a, b in lens(4)] +
        [ob("VH_C12_order", dict(LP=a, LQ=b), T, covers=["done"], bounds="all byte strings |p|=%d,|q|=%d" % (a, b)) for a, b in lens(6)] +
        [ob("VH_C12_trans", dict(N=2), Q, covers=["chain"], bounds="triples of byte strings of length <=2"),
         ob("VH_C12_trans", dict(N=3), T, covers=["chain"], bounds="triples of byte strings of length <=3"),
         ob("VH_C12_seq", dict(K=2, N=3), Q, covers=["spec-accepts", "spec-rejects", "all-accepted"], bounds="2 changes, paths <=3 bytes, kinds dir/file/delete"),
         ob("VH_C12_seq", dict(K=3, N=4), T, covers=["spec-accepts", "spec-rejects", "all-accepted"], bounds="3 changes, paths <=4 bytes"),
         ],
)

NOT_APPLICABLE = {
    "C08": "quantifies over schedules and includes data-race freedom and non-overlap of stream calls; the hand-written SSA executor runs goroutines under one cooperative schedule and cannot enumerate interleavings or observe races, and no Go engine that can is installed (DESIGN.md §7)",
}
for _p in ["C01","C02","C03","C04","C05","C06","C07","C09","C10","C11","C13","C14","C15","C16","C17","C18","C19","C20"]:
    if _p not in CHECKS:
        NOT_APPLICABLE[_p] = "harness for this property not built yet (work in progress); see DESIGN.md §8 fall-back rule"
