"""Registry of obligations per property. Each obligation names one harness entry point (an
in-package Go function overlaid on /repo) with its bounds; `./check <id>` runs them with gosym."""

MOD = "github.com/tonistiigi/fsutil"

def ob(harness, params=None, tiers=("quick", "thorough"), pkg=MOD, covers=(), bounds="", **kw):
    d = dict(harness=harness, params=params or {}, tiers=list(tiers), pkg=pkg, covers=list(covers), bounds=bounds)
    d.update(kw)
    return d

Q, T = ("quick",), ("thorough",)

def lens(n):
    return [(a, b) for a in range(n + 1) for b in range(n + 1)]

CHECKS = {}

CHECKS["C12"] = dict(
    level_text="For every byte string pair / triple and every change sequence inside the stated bounds the solver shows that no feasible path of the real ComparePath / Validator.HandleChange code violates the order axioms or disagrees with the reference acceptor written from the statement; outside the bounds nothing is claimed.",
    level_note="Bounds: paths <=4 bytes (quick) / <=6 (thorough) for the order, sequences of 2 changes x <=3 bytes (quick) / 3 x <=3 and 2 x <=4 (thorough). Trusted: go/ssa construction, the gosym interpreter (validated on every run by replaying sampled paths natively and comparing observed values), z3; pkg/errors and fmt are opaque-error models.",
    assumptions=[
        "bounded: paths of at most N bytes (all 256 byte values per position), sequences of at most K changes; longer inputs are outside the claim",
        "pkg/errors and fmt are replaced by opaque-error models (error text is never asserted)",
        "filepath.Clean/IsAbs/Dir/Base/Join, strings.HasPrefix, sort.Search are interpreted from their real SSA",
        "that every reachable validator state equals the state after some accepted sequence is covered only up to K",
    ],
    obligations=
        [ob("VH_C12_order", dict(LP=a, LQ=b), Q, covers=["done"], bounds="all byte strings |p|=%d,|q|=%d" % (a, b)) for a, b in lens(4)] +
        [ob("VH_C12_order", dict(LP=a, LQ=b), T, covers=["done"], bounds="all byte strings |p|=%d,|q|=%d" % (a, b)) for a, b in lens(6)] +
        [ob("VH_C12_trans", dict(N=2), Q, covers=["chain"], bounds="triples of byte strings of length <=2"),
         ob("VH_C12_trans", dict(N=3), T, covers=["chain"], bounds="triples of byte strings of length <=3"),
         ob("VH_C12_seq", dict(K=2, N=3), Q, covers=["spec-accepts", "spec-rejects", "all-accepted"], bounds="2 changes, paths <=3 bytes, kinds dir/file/delete"),
         ob("VH_C12_deep", dict(MAXD=12, K=3), Q, covers=["spec-accepts", "spec-rejects", "all-accepted"], bounds="3 entries with symbolic one-byte names below a chain of 1..12 nested directories"),
         ob("VH_C12_deep", dict(MAXD=44, K=3), T, covers=["spec-accepts", "spec-rejects", "all-accepted"], bounds="3 entries below a chain of 1..44 nested directories (three doublings of the validator's stack)"),
         ob("VH_C12_seq", dict(K=3, N=3), T, covers=["spec-accepts", "spec-rejects", "all-accepted"], bounds="3 changes, paths <=3 bytes", max_paths=2000000),
         ob("VH_C12_seq", dict(K=2, N=4), T, covers=["spec-accepts", "spec-rejects", "all-accepted"], bounds="2 changes, paths <=4 bytes", max_paths=2000000),
         ],
)

BASE_TRUST = "Trusted: go/ssa construction, the gosym interpreter (validated on every run by replaying sampled paths natively and comparing observed values), z3 5.1.0 (thorough tier: final assertion verdicts re-discharged on z3 4.8.12 and cvc5); pkg/errors and fmt are opaque-error models."

FS_TRUST = "The kernel is replaced by the model file system of /verif/models/m (root actor, umask 0, no EACCES/ENOSPC/concurrent modification; Lchown clears setuid/setgid as Linux does); claims hold for fsutil's control logic given that model, and every sampled path and every counterexample is re-run against the real kernel natively. Goroutines run under one cooperative schedule (lowest-numbered runnable goroutine, first ready select case): results are claimed for that schedule only. "

CHECKS["C03"] = dict(
    level_text="Within the bounds the solver shows that every path the real validators accept is lexically strictly inside the destination (Join(dest,p)=dest/p, component-wise well formed) and that an accepted hard link always names an earlier accepted regular entry; hostile packet scripts against a destination with outward symlinks are decided on the model file system where registered.",
    level_note="Bounds: paths <=3 (quick) / <=5 (thorough) symbolic bytes; link scripts of 2 (quick) / 3 (thorough) entries with names <=2 bytes. " + BASE_TRUST,
    assumptions=["dest is an absolute clean path that is not reached through symlinks", "paths longer than the bound and Windows path forms are outside the claim",
                 "hostile scripts: paths/link names are drawn from fixed candidate lists (symbolic path bytes are covered at validator level), the peer hangs up after its first offending packet; model file system, one schedule"],
    obligations=[
        ob("VH_C03_join", dict(N=n), Q, covers=["accepted", "rejected"] if n > 0 else ["rejected"], bounds="all byte strings of length %d" % n) for n in range(0, 4)] + [
        ob("VH_C03_join", dict(N=n), T, covers=["accepted", "rejected"] if n > 0 else ["rejected"], bounds="all byte strings of length %d" % n) for n in range(0, 6)] + [
        ob("VH_C03_join2", dict(N=2), Q, covers=["accepted", "rejected"], bounds="dir and child names of 1..2 bytes"),
        ob("VH_C03_join2", dict(N=3), T, covers=["accepted", "rejected"], bounds="dir and child names of 1..3 bytes"),
        ob("VH_C03_links", dict(K=2, N=2), Q, covers=["order-rejected", "link-rejected", "link-accepted", "all-accepted"], bounds="2 entries, path 1..2 bytes, linkname 0..2 bytes, class dir/file/symlink"),
        ob("VH_C03_links", dict(K=3, N=2), T, covers=["order-rejected", "link-rejected", "link-accepted", "all-accepted"], bounds="3 entries, path 1..2 bytes, linkname 0..2 bytes"),
        ob("VH_C03_hostile", dict(K=1), covers=["offending", "link-to-unknown", "unrequested-data", "legal-accepted"], bounds="1 hostile packet: 13 candidate paths x 6 link names x fully symbolic 32-bit mode, or DATA with symbolic id; destination with symlinks to an outside file and directory; model FS"),
        ob("VH_C03_hostile", dict(K=2, R=1), Q, covers=["offending", "link-to-unknown", "unrequested-data", "legal-accepted"], bounds="2 hostile packets over reduced candidate lists (5 paths x 3 link names), symbolic modes"),
        ob("VH_C03_hostile", dict(K=3, DMIN=9, DEEP=10), Q, covers=["offending", "legal-accepted"], bounds="3 hostile packets {m, m/f, n} x {no link, link to an outside directory} x {dir, file, symlink} below a well-formed chain of 9..10 nested directories; the peer may keep serving after its offending packet"),
        ob("VH_C03_hostile", dict(K=3, DMIN=1, DEEP=21), T, covers=["offending", "legal-accepted"], bounds="the same below chains of every depth 1..21", max_paths=2000000),
        ob("VH_C03_merge", {}, Q, covers=["metadata-only", "done"], bounds="merge and/or metadata-only mode (every selection), sender announces a regular file a and a hard link b to it with symbolic special bits; destination pre-populated under those names with symlinks to an outside file / directory or a stale file"),
        ob("VH_C03_hostile", dict(K=2), T, covers=["offending", "link-to-unknown", "unrequested-data", "legal-accepted"], bounds="2 hostile packets over the full candidate lists"),
        ob("VH_C03_hostile", dict(K=3, R=1), T, covers=["offending", "link-to-unknown", "unrequested-data", "legal-accepted"], bounds="3 hostile packets over reduced candidate lists", max_paths=400000),
    ],
)

CHECKS["C02"] = dict(
    level_text="For every pair of stats with full-width symbolic fields the solver shows sameFile(DiffMetadata) is exactly the identity relation of the statement and sameFile(DiffNone) is never true; the diff/API-level obligations are added where registered.",
    level_note="Bounds: link names <=2 bytes, all numeric fields full width. " + BASE_TRUST,
    assumptions=["DiffContent (byte comparison of real files) is outside the claim", "edit histories are reduced to arbitrary (old,new) pairs: the diff keeps no state between runs"],
    obligations=[
        ob("VH_C02_samefile", {}, covers=["identical", "different"], bounds="all field values; linknames of 0..2 bytes"),
        ob("VH_C02_resync", dict(NONE=0), covers=["differ-metadata", "unchanged", "listing-name-file"], bounds="model FS: source {d, d/f, e, l, optionally a root file named .fsutil-metadata}; first transfer, one of 14 mutations of the source (none, rewrite same/other size, touch, chmod to a symbolic mode, chown to a symbolic uid, delete, file->dir, chmod of a directory, touch or retarget of a symlink, rewrite or chgrp of a nested file, new file), second transfer", max_steps=5000000),
        ob("VH_C02_resync", dict(NONE=1), covers=["differ-none"], bounds="the same with differencing disabled", max_steps=5000000),
    ],
)

CHECKS["C18"] = dict(
    level_text="(1) For every sorted list of plausible paths within the bounds the solver shows dedupePaths returns a non-nested covering sub-list (nil iff the root is listed). (2) The real FollowLinks (symlinkResolver, statFile/readDir over the real NewFS on the model file system) is executed for every assignment of link targets and every request list inside the bounds and compared with an independent physical chroot-style resolver: it terminates, the result is sorted and non-nested, covers every traversed symlink and the final location when it exists, and is empty when the root is reached.",
    level_note="Bounds: lists of 3 (quick) / 4 (thorough) paths of 1..3 (quick) / 1..4 (thorough) symbolic bytes; resolver: fixed tree shape, 12 candidate link targets on three links, 1 (quick) / 2 (thorough) requests out of 11; requests on which the reference resolver itself hits its 40-hop limit only assert termination; wildcard requests only in the fan-out obligation (last component); the end-to-end transfer with follow-paths is outside. " + FS_TRUST + BASE_TRUST,
    assumptions=["inputs are strictly ascending bytewise and are '.' or relative paths without empty or '.' components (what filepath.Join produces in FollowLinks)"],
    obligations=[
        ob("VH_C18_dedupe", dict(K=3, N=3), Q, covers=["dot", "nodot"], bounds="3 paths of 1..3 bytes"),
        ob("VH_C18_dedupe", dict(K=4, N=3), T, covers=["dot", "nodot"], bounds="4 paths of 1..3 bytes"),
        ob("VH_C18_dedupe", dict(K=3, N=4), T, covers=["dot", "nodot"], bounds="3 paths of 1..4 bytes"),
        ob("VH_C18_resolve", dict(NREQ=1), covers=["needs", "root-reached", "hop-limit", "lexical-dotdot"], bounds="model-FS tree {d/, d/x, d/y, d/s/, d/f, f, S->d/s, L, L2, d/M?} with every assignment of 12 candidate targets (relative, absolute, '..' beyond the root, chains, loops, dangling, links in intermediate components) to L, L2, d/M; one request out of 11"),
        ob("VH_C18_wildcard", dict(N=45), covers=["done"], bounds="one wildcard request matching 45 two-step symlink chains (more links followed in total than the 40-hop bound of one resolution), optionally one dangling match", max_steps=30000000),
        ob("VH_C18_transfer", dict(NREQ=1), covers=["resolvable", "unresolvable", "wildcard", "lexical-dotdot", "done"], bounds="consequence clause: model-FS tree {srv1/{conf,other,lnk->../z}, srv2/{conf,lnk->../f}, f, z, L -> one of 5 targets, optional directory symlink srv3}; one follow-path out of 16 (literal, wildcard in the last / a middle / both components), with or without a literal user include; the filtered walk must contain what every requested path resolves through"),
        ob("VH_C18_transfer", dict(NREQ=2), covers=["resolvable", "unresolvable", "wildcard", "done"], bounds="the same with every ordered pair of follow-paths"),
        ob("VH_C18_resolve", dict(NREQ=2), T, covers=["needs", "root-reached", "hop-limit", "lexical-dotdot"], bounds="as quick with every ordered pair of requests", max_paths=900000),
    ],
)

CHECKS["C19"] = dict(
    level_text="One allocator step from an arbitrary valid buffer state with fully symbolic chunk lengths, capacities and request size: the solver shows length, non-overlap, append-only emission order and invariant preservation, which covers allocation histories of any length by induction; plus K allocations from the empty buffer.",
    level_note="Bounds: states of 0..2 (quick) / 0..3 (thorough) chunks, sizes in [0,2^31); sequences of 3 (quick) / 5 (thorough) allocations. " + BASE_TRUST,
    assumptions=["slice elements are not inspected (the allocator never reads them)", "representation invariant of the last chunk: cap == 32768 or len == cap",
                 "metadata-only transfer: model file system, one schedule, concrete metadata (symbolic metadata is covered by C07/C20), no hard links (selector precondition)"],
    obligations=[
        ob("VH_C19_alloc_step", dict(K=0), covers=["appended"], bounds="empty buffer, n in [0,2^31)"),
        ob("VH_C19_alloc_step", dict(K=1), covers=["appended", "extended"], bounds="1 chunk, symbolic len/cap, n in [0,2^31)"),
        ob("VH_C19_alloc_step", dict(K=2), covers=["appended", "extended"], bounds="2 chunks, symbolic len/cap"),
        ob("VH_C19_alloc_step", dict(K=3), T, covers=["appended", "extended"], bounds="3 chunks, symbolic len/cap"),
        ob("VH_C19_alloc_seq", dict(K=3), Q, covers=["done"], bounds="3 allocations, symbolic sizes"),
        ob("VH_C19_alloc_seq", dict(K=5), T, covers=["done"], bounds="5 allocations, symbolic sizes"),
        ob("VH_C19_metaonly", dict(MAXB=1), Q, covers=["requested", "done"], bounds="source [.fsutil-metadata?, d, d/f?, d2?, d2/g?], every selector, files <=1 symbolic byte, prior dest in {empty, stale file, old listing file, listing-name symlink}; model FS"),
        ob("VH_C19_metaonly", dict(MAXB=0, MERGE=1), Q, covers=["requested", "listing-name-link-outside", "done"], bounds="merge mode, empty files: prior destination additionally with a listing-name symlink to a file outside the destination"),
        ob("VH_C19_metaonly", dict(MAXB=1, E=1), T, covers=["requested", "done"], bounds="as quick plus a further top-level entry e (file or directory)"),
        ob("VH_C19_metaonly", dict(MAXB=2), T, covers=["requested", "done"], bounds="as quick with files <=2 symbolic bytes"),
    ],
)

CHECKS["C09"] = dict(
    level_text="The solver proves, within the name-length bounds, the order lemma that turns 'pre-order walk over bytewise-sorted listings' into 'strictly ascending protocol order'; and the real NewFS/Walk/mkstat/setUnixOpt code is executed on model-FS trees whose names sort differently bytewise and path-wise, with symbolic metadata and every hard-link grouping: each entry once, root never, ascending protocol order, stat equal to lstat/readlink, first member of an inode group is the file and later members name it.",
    level_note="Bounds: directory prefix <=2 (quick) / <=3 (thorough) bytes, sibling names 1..3 bytes, one-byte tails. The induction over tree depth is a stated hand argument; filepath.WalkDir's pre-order/sorted contract is assumed. " + BASE_TRUST,
    assumptions=["os.ReadDir returns names sorted bytewise and filepath.WalkDir visits pre-order (stdlib contract)"],
    obligations=[
        ob("VH_C09_order_lemma", dict(ND=2, NN=3), Q, covers=["done"], bounds="|d|<=2, sibling names 1..3 bytes"),
        ob("VH_C09_order_lemma", dict(ND=3, NN=3), T, covers=["done"], bounds="|d|<=3, sibling names 1..3 bytes"),
        ob("VH_C09_subdir", {}, covers=["done", "hardlink", "absolute-symlink"], bounds="two sub-roots with symbolic one-byte names, inner views {f, g in (none | hard link to f | absolute symlink | relative symlink)}"),
        ob("VH_C09_walk", {}, covers=["done", "hardlink", "hardlinked-symlink"], bounds="model-FS tree {a/, a/x, a-b, a.c, b?}: a-b regular/symlink/char device, every hard-link grouping of the regular files, symbolic permission bits/uid/gid"),
    ],
)

TYPES = MOD + "/types"
UTIL = MOD + "/util"

CHECKS["C20"] = dict(
    level_text="Within the bounds the solver shows for the hand-written (vtproto) codec: encode/decode round trip with full-width numeric fields, byte-for-byte equality with an independent proto3 reference encoder, and for every input byte string up to N bytes that decoding returns without panic or out-of-range access, allocates no more than the input, and never aliases the input; and for the length-prefixed stream that packets are read back identical under every fragmentation.",
    level_note="Bounds: one field at a time over all its varint size classes; all fields set together with pairs of numeric fields symbolic over the {0, one-byte, maximal} classes; strings <=2 symbolic bytes, plus pattern strings at the varint length boundaries (around 128 and 16384); <=1 xattr; decoder inputs of <=3 (quick) / <=5 (thorough) arbitrary bytes; two packets per stream with <=2 data bytes. The reflection-based protobuf runtime is not encoded: interoperability with it rests on the reference encoder being proto3-conformant. math/bits.Len* is an engine intrinsic (threshold chain). " + BASE_TRUST,
    assumptions=["google.golang.org/protobuf runtime, UnmarshalVTUnsafe and allocation driven by a hostile 4-byte frame length in RecvMsg are outside the claim",
                 "sync.Pool is modelled as LIFO reuse (a Put buffer is handed out again by the next Get)"],
    obligations=
        [ob("VH_C20_stat_field", dict(F=f), pkg=TYPES, covers=["done"], bounds="Stat field %d fully symbolic" % f) for f in (2, 3, 4, 5, 6, 8, 9)] +
        [ob("VH_C20_stat_field", dict(F=f, L=2), pkg=TYPES, covers=["done"], bounds="Stat string field %d, 2 arbitrary bytes" % f) for f in (1, 7)] +
        [ob("VH_C20_stat_field", dict(F=10, L=1, L2=1), pkg=TYPES, covers=["done"], bounds="one xattr, 1-byte key and value"),
         ob("VH_C20_stat_all", dict(L=1, G=0), T, pkg=TYPES, covers=["done"], bounds="all Stat fields set; Mode and Size symbolic over classes {0,1-byte,max}"),
         ob("VH_C20_stat_all", dict(L=1, G=1), T, pkg=TYPES, covers=["done"], bounds="all Stat fields set; Uid and Gid symbolic"),
         ob("VH_C20_stat_all", dict(L=1, G=2), T, pkg=TYPES, covers=["done"], bounds="all Stat fields set; ModTime and Devmajor symbolic"),
         ob("VH_C20_stat_all", dict(L=1, G=3), T, pkg=TYPES, covers=["done"], bounds="all Stat fields set; Devminor and Mode symbolic"),
         ob("VH_C20_stat_lengths", dict(F=10), pkg=TYPES, covers=["done"], bounds="one xattr, key and value lengths each from {0,1,2,24,60,100,118..130} (19x19), pattern contents; also nested in a packet"),
         ob("VH_C20_stat_lengths", dict(F=10, BIG=1), pkg=TYPES, covers=["done"], bounds="one xattr, key length from the small set, value length from {16370..16386} (the 3-byte varint boundary)"),
         ob("VH_C20_stat_lengths", dict(F=1), pkg=TYPES, covers=["done"], bounds="path length from the boundary set"),
         ob("VH_C20_stat_lengths", dict(F=7), pkg=TYPES, covers=["done"], bounds="link name length from the boundary set"),
         ob("VH_C20_stat_lengths", dict(F=1, BIG=1), pkg=TYPES, covers=["done"], bounds="path length around 16384"),
         ob("VH_C20_packet", dict(D=1), Q, pkg=TYPES, covers=["done"], bounds="type/id symbolic, 1 data byte, optional nested stat"),
         ob("VH_C20_packet", dict(D=2), T, pkg=TYPES, covers=["done"], bounds="type/id symbolic, 2 data bytes, optional nested stat"),
         ] +
        [ob("VH_C20_decode_packet", dict(N=n), Q, pkg=TYPES, covers=(["rejected"] if n > 0 else []) + (["accepted"] if n != 1 else []), bounds="all byte strings of length %d" % n) for n in range(0, 4)] +
        [ob("VH_C20_decode_stat", dict(N=n), Q, pkg=TYPES, covers=(["rejected"] if n > 0 else []) + (["accepted"] if n != 1 else []), bounds="all byte strings of length %d" % n) for n in range(0, 4)] +
        [ob("VH_C20_decode_packet", dict(N=n), T, pkg=TYPES, covers=["rejected", "accepted"], bounds="all byte strings of length %d" % n) for n in (4, 5)] +
        [ob("VH_C20_decode_stat", dict(N=n), T, pkg=TYPES, covers=["rejected", "accepted"], bounds="all byte strings of length %d" % n) for n in (4, 5)] +
        [ob("VH_C20_recv_arbitrary", dict(K=k), pkg=UTIL, covers=["rejected"] + (["accepted"] if k != 1 else []), bounds="RecvMsg on every stream of 4 arbitrary length bytes + %d arbitrary payload bytes (incl. hostile lengths up to 2^32-1)" % k) for k in (0, 1, 2, 3)] +
        [ob("VH_C20_recv_arbitrary", dict(K=4), T, pkg=UTIL, covers=["rejected", "accepted"], bounds="RecvMsg on every stream of 4 arbitrary length bytes + 4 arbitrary payload bytes"),
         ob("VH_C20_framing", dict(D1=0, D2=0, ID=0), pkg=UTIL, covers=["done"], bounds="2 packets (symbolic type, possibly empty), every fragmentation of the <=12 byte stream"),
         ob("VH_C20_framing_big", dict(W=6), Q, pkg=UTIL, covers=["done"], bounds="a DATA packet of every encoded size 32762..32774 (the pooled 32 KiB buffer boundary, fixed payload pattern with symbolic first/last byte) before or after a small packet, unfragmented"),
         ob("VH_C20_framing_big", dict(W=40), T, pkg=UTIL, covers=["done"], bounds="as above, every encoded size 32728..32808"),
         ob("VH_C20_framing", dict(D1=1, D2=0, ID=0), T, pkg=UTIL, covers=["done"], bounds="2 packets (1 and 0 data bytes), every fragmentation"),
         ob("VH_C20_framing", dict(D1=0, D2=0, ID=1), T, pkg=UTIL, covers=["done"], bounds="2 packets, the first with a symbolic id (1- and 5-byte varints), every fragmentation", max_paths=600000),
        ] + [
        ],
)


CHECKS["C06"] = dict(
    level_text="The real Send (walk, queue, four file workers, request loop) is executed symbolically against an independent reference receiver written from the protocol comment, for every source view, request script and read fragmentation inside the bounds; the solver decides every branch, so STAT order/content, DATA framing per id, rejection of invalid ids, FIN echo and progress monotonicity are shown for all those inputs under the canonical schedule.",
    level_note="Bounds: views over {d, d/f, e, g} with solver-chosen classes (regular/symlink/fifo), regular files of 0..1 (quick) / 0..2 (thorough) symbolic bytes read in arbitrary fragments, request scripts of 2 (quick) / 3 (thorough) ids drawn from all announced positions plus one never-announced id. " + FS_TRUST + BASE_TRUST,
    assumptions=["two deterministic schedules (run-until-block, and the same with every sender-side SendMsg returning only after the peer reacted, which lets requests race the STAT stream); other interleavings, request concurrency and bursts >132 are outside the claim", "the stream is an in-memory FIFO that deep-copies packets"],
    obligations=[
        ob("VH_C06_sender", dict(MAXB=1, NREQ=2), Q, covers=["valid-request", "invalid-request", "fin", "hardlink-entry"], bounds="files <=1 byte, 2 requests"),
        ob("VH_C06_eager", dict(MAXB=1), covers=["eager-request", "fin"], bounds="requests issued the moment a STAT arrives (any subset) or after the end marker (any subset), over a transport whose SendMsg returns after the peer reacted; files <=1 byte"),
        ob("VH_C06_sender", dict(MAXB=0, NREQ=2, OPENERR=1), Q, covers=["valid-request", "invalid-request", "fin", "open-fails"], bounds="empty files, any subset of the announced files can no longer be opened when requested, 2 requests (an id is used up even if its file could not be opened)"),
        ob("VH_C06_burst", dict(MAXB=1, NREQ=2), Q, covers=["valid-burst", "invalid-burst", "fin"], bounds="files <=1 byte, 1..2 requests sent back to back, DATA sorted by id afterwards"),
        ob("VH_C06_flood", dict(N=140, SCHEDREV=1), Q, covers=["done"], bounds="the same flood under the youngest-runnable-first schedule (the sender's request loop runs ahead of its listing)", max_steps=60000000),
        ob("VH_C06_flood", dict(N=140), Q, covers=["done"], bounds="140 one-byte files requested the moment their STAT arrives (more outstanding requests than the 128-slot pipeline and the 4 workers hold) while the listing continues and every source read waits for the end of the listing", max_steps=60000000),
        ob("VH_C06_sender", dict(MAXB=1, NREQ=2, OPENERR=1), T, covers=["valid-request", "invalid-request", "fin", "open-fails"], bounds="files <=1 byte, unopenable files, 2 requests"),
        ob("VH_C06_burst", dict(MAXB=1, NREQ=3), T, covers=["valid-burst", "invalid-burst", "fin"], bounds="files <=1 byte, 1..3 requests back to back"),
        ob("VH_C06_sender", dict(MAXB=2, NREQ=3), T, covers=["valid-request", "invalid-request", "fin", "hardlink-entry"], bounds="files <=2 bytes, 3 requests"),
    ],
)

CHECKS["C07"] = dict(
    level_text="The real Receive (packet loop, validators, dynamic walker, diff, DiskWriter, async data pipes) is executed symbolically on the model file system against an independent reference sender, for every legal STAT sequence, prior destination and DATA chunking inside the bounds: REQ ids are exactly the STAT positions of the regular non-link entries that differ, each once; stored bytes are the payload concatenation; FIN comes after all content; success only after the echo and end of stream; the destination equals the source view.",
    level_note="Bounds: source over {d, d/f, e} (dir, regular, symlink, fifo, hard link), symbolic permission/special bits, uid, gid, mtimes from 2 values (a sub-second instant and the epoch; one obligation with a pre-epoch fractional instant and x.999999999 s), files of 0..2 (quick) / 0..3 (thorough) symbolic bytes, chunkings of every composition; prior destination per path in {absent, identical, other file, other dir with a stale child, symlink} plus a stale extra entry. " + FS_TRUST + BASE_TRUST,
    assumptions=["two deterministic schedules (run-until-block, and the same with receiver-side SendMsg latency); other interleavings and 1 MiB chunks are outside the claim", "synthetic stats only (no disk on the sending side)"],
    obligations=[
        ob("VH_C07_receiver", dict(SHAPE=0, MAXB=1), covers=["requested", "not-requested", "done"], bounds="source {d, e}, files <=1 byte"),
        ob("VH_C07_receiver", dict(SHAPE=1, MAXB=2), covers=["requested", "not-requested", "done"], bounds="source {d, d/f}, files <=2 bytes"),
        ob("VH_C07_receiver", dict(SHAPE=0, MAXB=0, LN=1), covers=["requested", "not-requested", "done"], bounds="plain transfer whose source may hold a root-level regular file named .fsutil-metadata"),
        ob("VH_C07_receiver", dict(SHAPE=1, MAXB=1, LAT=1), covers=["requested", "not-requested", "done"], bounds="source {d, d/f}; second deterministic schedule: the receiver's SendMsg returns after the peer reacted (DATA can overtake the return of the REQ call)"),
        ob("VH_C07_receiver", dict(SHAPE=1, MAXB=1, MT=1), covers=["requested", "not-requested", "done"], bounds="source {d, d/f} with mtimes from {1.25 s before the epoch, the last nanosecond of a second}"),
        ob("VH_C07_many", dict(N=400), covers=["done"], bounds="a concrete listing of 400 one-byte files announced completely before any content is delivered (more entries than the receiver's internal queues hold)", max_steps=60000000),
        ob("VH_C07_receiver", dict(SHAPE=2, MAXB=2), T, covers=["requested", "not-requested", "done"], bounds="source {d, d/f, e} incl. hard link, files <=2 bytes", max_paths=2000000),
        ob("VH_C07_receiver", dict(SHAPE=2, MAXB=1, LAT=1), T, covers=["requested", "not-requested", "done"], bounds="source {d, d/f, e} incl. hard link under the latency schedule", max_paths=2000000),
        ob("VH_C07_receiver", dict(SHAPE=1, MAXB=3), T, covers=["requested", "not-requested", "done"], bounds="source {d, d/f}, files <=3 bytes, every chunking"),
    ],
)

CHECKS["C05"] = dict(
    level_text="The change callback of the real Receive is checked on the model file system against the set of paths whose identity or bytes differ between the prior destination and the announced source, for every source, prior destination and chunking inside the bounds: one upsert per changed path with the stat as sent, none for unchanged paths, one delete per removed top-most path, and the hash sink fed header ++ exactly the stored bytes with the attached digest being the digest of that sink.",
    level_note="Bounds as C07 (source over {d, d/f, e}, symbolic permission bits/uid/gid, files <=1 (quick) / <=2 (thorough) symbolic bytes, every chunking). Add and modify are both treated as upsert (regular files are always reported as add). SHA-256 is not encoded: the hash is a recording sink and the digest is compared through the same digest constructor. " + FS_TRUST + BASE_TRUST,
    assumptions=["completion orders other than the canonical schedule are outside the claim", "the timing-dependent hard-link exception of C02 is excluded (link groups intact)"],
    obligations=[
        ob("VH_C05_notify", dict(SHAPE=0, MAXB=1), covers=["unchanged", "changed", "dir-metadata-change", "dir-unchanged", "delete", "done"], bounds="source {d, e}"),
        ob("VH_C05_notify", dict(SHAPE=1, MAXB=2), covers=["unchanged", "changed", "done"], bounds="source {d, d/f}, files <=2 bytes"),
        ob("VH_C05_notify", dict(SHAPE=0, MAXB=0, TMP=1), covers=["unchanged", "changed", "delete", "done"], bounds="source {d, e}; stale destination entry may be named like the writer's temp files (.tmp.zz)"),
        ob("VH_C05_notify", dict(SHAPE=0, MAXB=1, META=1), covers=["unchanged", "changed", "delete", "dir-chown", "other-mtime", "done"], bounds="source {d, e}; prior destination also with 'same bytes, size and mtime but another owner' (pure metadata edit of a file), 'same everything but an mtime one nanosecond later' (touch below the microsecond) and 'same mode and mtime but another owner' (pure chown of a directory)"),
        ob("VH_C05_notify", dict(SHAPE=0, MAXB=1, FILTER=1), covers=["unchanged", "changed", "delete", "done"], bounds="source {d, e}, receiver filter rewriting the group of every entry"),
        ob("VH_C05_notify", dict(SHAPE=2, MAXB=1), T, covers=["unchanged", "changed", "dir-metadata-change", "delete", "done"], bounds="source {d, d/f, e} incl. hard link"),
        ob("VH_C05_notify", dict(SHAPE=2, MAXB=1, FILTER=1), T, covers=["unchanged", "changed", "delete", "done"], bounds="source {d, d/f, e}, receiver filter rewriting the group"),
    ],
)

CHECKS["C01"] = dict(
    level_text="Two depths, both decided by the solver over all inputs inside the bounds: (a) the real doubleWalkDiff (three goroutines, channels, errgroup) on arbitrary parent-closed tree pairs with symbolic stats: applying the emitted change stream to the lower tree yields the upper tree, with exactly one change per differing path; (b) the real Send (on-disk source through NewFS/Walk/mkstat) and the real Receive connected by an in-memory stream on the model file system: whenever both return success the destination equals the source tree (types, bytes, permission/special bits, uid/gid, symlink targets, device numbers, hard-link groups, mtimes of non-directories and created directories) for every source tree and dirty prior destination explored.",
    level_note="Bounds: (a) universes of 3 (quick) / 4 and 6 (thorough) paths including names that sort differently bytewise and path-wise (a, a/b, a-b), symbolic Mode and Size (plus Uid, ModTime in the FULL variant); (b) source trees over {d, d/f, e, h(hard link), l(symlink), p(fifo/char device)} with symbolic permission/special bits, uid, gid, files of 0..1 symbolic bytes, mtimes from 2 values, prior destination in {empty, stale file, dir where the source has a file, file where the source has a dir, symlink + nested stale content}. Unprivileged receivers, 32 KiB chunk boundaries and synthetic sources are outside. " + FS_TRUST + BASE_TRUST,
    assumptions=["one schedule (the stat->diff->writer pipeline is a Kahn network: results, not liveness, are schedule independent)", "mtimes are drawn from a small concrete set so that ns arithmetic stays concrete"],
    obligations=[
        ob("VH_C01_diff", dict(U=0), covers=["added", "removed", "unchanged", "modified"], bounds="universe {a, a/b, a-b}"),
        ob("VH_C01_diff", dict(U=1), covers=["added", "removed", "unchanged", "modified"], bounds="universe {a, a/b, a/b/c}"),
        ob("VH_C01_diff", dict(U=0, FULL=1), Q, covers=["added", "removed", "unchanged", "modified"], bounds="universe {a, a/b, a-b}, Mode/Size/Uid/ModTime symbolic"),
        ob("VH_C01_diff", dict(U=2), T, covers=["added", "removed", "unchanged", "modified"], bounds="universe {a, a/b, a-b, b}"),
        ob("VH_C01_diff", dict(U=3), T, covers=["added", "removed", "unchanged", "modified"], bounds="universe {a, a/b, a/b/c, a0}"),
        ob("VH_C01_diff", dict(U=5), T, covers=["added", "removed", "unchanged", "modified"], bounds="universe {a, a/b, a/c, a-b, a-b/c, b}"),
        ob("VH_C01_e2e", dict(S=8, D=5, MAXB=1, NZ=1), Q, covers=["done"], bounds="source {d, d/f, e}, files <=1 byte, every dirty prior destination, non-zero ids", max_steps=5000000),
        ob("VH_C01_e2e", dict(S=3, D=2, MAXB=1, NZ=1), Q, covers=["done"], bounds="source {d, d/f, h, l}, prior destination empty or stale file, non-zero ids", max_steps=5000000),
        ob("VH_C01_e2e", dict(S=18, D=6, MAXB=0, NZ=1), Q, covers=["done"], bounds="source {d, d/f, l -> d/f or d, zl = optional second name of the symlink inode}, every dirty prior destination incl. a directory where the source has the symlink", max_steps=5000000),
        ob("VH_C01_e2e", dict(S=8, D=2, MAXB=1, NZ=1, MT=1), Q, covers=["done"], bounds="source {d, d/f, e} with mtimes from {1.25 s before the epoch, the last nanosecond of a second}", max_steps=5000000),
        ob("VH_C01_e2e", dict(S=0, D=5, MAXB=0, NZ=0), Q, covers=["done"], bounds="source {d, d/f}, every dirty prior destination, fully symbolic ids (zero included: the receiver's own uid/gid)", max_steps=5000000),
        ob("VH_C01_e2e", dict(S=4, D=1, MAXB=1, NZ=1), Q, covers=["done"], bounds="source {d, d/f, p(fifo/char device)}, fresh destination, non-zero ids", max_steps=5000000),
        ob("VH_C01_e2e", dict(S=0, D=2, MAXB=1, NZ=1, X=1), Q, covers=["done"], bounds="source {d, d/f} with optional user.* xattrs on both, prior destination empty or stale file", max_steps=5000000),
        ob("VH_C01_e2e", dict(S=8, D=6, MAXB=0, NZ=1, MERGE=1), Q, covers=["done", "merge", "kept-stale"], bounds="merge mode: source {d, d/f, e}, every dirty prior destination; result = overlay, nothing deleted that the source does not replace", max_steps=5000000),
        ob("VH_C01_e2e", dict(S=10, D=6, MAXB=1, NZ=1, MERGE=1), T, covers=["done", "merge", "kept-stale"], bounds="merge mode: source {d, d/f, e, l}", max_steps=5000000),
        ob("VH_C01_e2e", dict(S=15, D=6, MAXB=1, NZ=1), T, covers=["done"], bounds="source {d, d/f, e, h, l, p}, every dirty prior destination, non-zero ids", max_steps=5000000),
        ob("VH_C01_e2e", dict(S=8, D=2, MAXB=1, NZ=0), T, covers=["done"], bounds="source {d, d/f, e}, fully symbolic ids", max_steps=5000000),
    ],
)

COPY = MOD + "/copy"

CHECKS["C13"] = dict(
    level_text="The real copy.Copy (rootPath/continuity RootPath, MkdirAll, copier.copy, copyDirectory, copyFileInfo, copyFile/copy_file_range loop, copyDevice, hard-link map, notifier) is executed symbolically on the model file system for every source tree and option set inside the bounds; the solver shows the destination equals the source (or carries the requested owner / octal or symbolic mode / timestamp), hard-link groups are preserved, and the notifier fires exactly once per non-directory with its destination path.",
    level_note="Bounds: source tree t/{f, d/, d/g, h(hard link), l(symlink), p(fifo/char device)} with symbolic permission+special bits, uid, gid, files of 0..1 symbolic bytes, mtimes from 2 values; options chown (symbolic ids), octal mode (symbolic 12 bits), utime, symbolic modes a+X and go-w. Because the model's Lchown clears setuid/setgid like Linux, a chmod-before-chown ordering would be visible in the final state. follow-links on, xattr error handlers and other symbolic mode strings are outside. " + FS_TRUST + BASE_TRUST,
    assumptions=["copy_file_range is modelled as copying everything asked for (fall-back variants in the thorough tier)", "xattrs: at most one user.* attribute per node"],
    obligations=[
        ob("VH_C13_tree", dict(S=15, MAXB=1, OPT=0), pkg=COPY, covers=["done"], bounds="whole universe, no options"),
        ob("VH_C13_tree", dict(S=3, MAXB=1, OPT=7), pkg=COPY, covers=["done"], bounds="{f, d, d/g, h}, chown+mode+utime"),
        ob("VH_C13_tree", dict(S=12, MAXB=1, OPT=3), pkg=COPY, covers=["done"], bounds="{f, l, p}, chown+mode"),
        ob("VH_C13_tree", dict(S=1, MAXB=0, OPT=8), pkg=COPY, covers=["done"], bounds="{f, d, d/g}, symbolic modes a+X / go-w"),
        ob("VH_C13_tree", dict(S=1, MAXB=1, OPT=0, X=1), pkg=COPY, covers=["done"], bounds="{f, d, d/g} with optional user.* xattrs on t and f"),
        ob("VH_C13_single", {}, pkg=COPY, covers=["options", "sub-directory", "created-parents"], bounds="single file / single symlink (copied, or followed with follow-links) / sub-directory, to g or to a/b/g with missing parents, with and without chown+utime"),
        ob("VH_C13_tree", dict(S=15, MAXB=2, OPT=0), T, pkg=COPY, covers=["done"], bounds="whole universe, files <=2 bytes"),
        ob("VH_C13_tree", dict(S=15, MAXB=1, OPT=7), T, pkg=COPY, covers=["done"], bounds="whole universe, chown+mode+utime"),
        ob("VH_C13_tree", dict(S=13, MAXB=0, OPT=9), T, pkg=COPY, covers=["done"], bounds="{f, d, d/g, l, p}, chown + symbolic modes"),
    ],
)

CHECKS["C14"] = dict(
    level_text="The real copy.Copy is executed on the model file system with symlinks (relative, absolute, '..'-laden, dangling, self-looping, pointing at an outside sentinel file or directory) placed in the source tree, the destination tree and the path arguments; for every placement inside the bounds the model's operation log shows every mutating operation resolves inside the destination root and every content read inside the source root, and the outside sentinel tree is bit-identical afterwards.",
    level_note="Bounds: source {f, d/, d/g, sl -> 8 candidate targets, d/sl?}, destination collision points f, d, d/g, x in {absent, symlink -> 5 candidate targets, file/dir}, src path in {., f, d, sl, sl/g}, dst path in {., x, d, x/y}, flags dir-contents / follow-links / always-replace; explored as two sub-spaces (source-side variety with clean destination; destination-side variety with fixed source) plus a reduced joint space in the thorough tier. Check-then-use races are outside (single actor). " + FS_TRUST + BASE_TRUST,
    assumptions=["link targets are drawn from fixed candidate lists (file names are concrete)", "single actor: nothing changes the trees between a check and its use"],
    obligations=[
        ob("VH_C14_contain", dict(MODE=0), pkg=COPY, covers=["error", "success", "mode-option"], bounds="source-side symlink variety x path arguments x flags (incl. a numeric mode option), clean destination"),
        ob("VH_C14_contain", dict(MODE=1), pkg=COPY, covers=["error", "success"], bounds="destination-side symlink variety x flags, fixed source link"),
        ob("VH_C14_contain", dict(MODE=3), pkg=COPY, covers=["error", "success", "include-patterns"], bounds="include patterns (d/g, d/*, **/g: the directory d is created late) x destination-side symlink variety (d -> outside directory holding a same-named file) x flags"),
        ob("VH_C14_wildcard", {}, pkg=COPY, covers=["symlink-match", "done"], bounds="wildcard source t/x* over three names each in {absent, file, directory, symlink to an outside directory / file / dangling}, destination path o, o/, o/p or n/m over three destination states, directory-contents and always-replace flags"),
        ob("VH_C14_wildcard2", {}, pkg=COPY, covers=["replaced-by-symlink", "hardlink", "done"], bounds="wildcard t/*/* bringing a/f (regular, symbolic special bits), b/f (absent / file / symlink to an outside file or directory) and c/g (file or hard link of a/f) into one destination directory"),
        ob("VH_C14_contain", dict(MODE=2), T, pkg=COPY, covers=["error", "success"], bounds="both sides over reduced candidate lists", max_paths=600000),
    ],
)

CHECKS["C15"] = dict(
    level_text="The real copy.Copy is executed on the model file system over a shared name universe in which every (source type, destination type) pair collides; the result is compared with an executable overlay model written from the statement (directories merge, non-directory replaces non-directory of any type, unrelated entries stay, a directory lands inside an existing directory or a path ending in a separator unless directory-contents mode is on, directory vs non-directory is an error leaving the obstacle unless always-replace), and a successful copy is repeated to show the tree does not change.",
    level_note="Bounds: source t/{x in file|dir(+children c, k)|symlink [, y]}, destination t/ optional with {x [, y] in absent|file|dir(+children)|symlink|fifo, unrelated z}, dst argument in {t, t/, n/m}, flags dir-contents and always-replace, symbolic file bytes. The attributes of a target directory prepared in directory-contents mode are not asserted; the repeat is asserted where it resolves to the same target. " + FS_TRUST + BASE_TRUST,
    assumptions=["names are concrete, file bytes symbolic", "wildcards: one pattern shape (prefix*) in the last component"],
    obligations=[
        ob("VH_C15_overlay", dict(Y=0), pkg=COPY, covers=["conflict", "overlay", "idempotent", "top-level-obstacle"], bounds="one colliding name x, all type pairs; in directory-contents mode also a non-directory at the destination path itself"),
        ob("VH_C15_wildcard", {}, pkg=COPY, covers=["no-match", "matches", "nested-match"], bounds="wildcard source t/x* over names x1, x2, y each in {absent, file, dir with children, symlink}, optionally a matching name inside the non-matching directory, target directory absent / empty / holding a colliding file"),
        ob("VH_C15_wildcard", dict(PAT=1), pkg=COPY, covers=["no-match", "matches", "middle-wildcard"], bounds="wildcard in a middle component: t/*/k over the same trees"),
        ob("VH_C15_overlay", dict(Y=1), T, pkg=COPY, covers=["conflict", "overlay", "idempotent"], bounds="two colliding names x, y", max_paths=600000),
    ],
)

FILTER_NOTE = "Pattern classes: literals, 'x/**', '**/y' and their negations (the classes in which the walk's directory-pruning shortcuts are enabled, matched by the real patternmatcher code without regexp); '*', '?', character classes and escapes go through regexp and are outside the claim. Names are single symbolic bytes (any value but '/', NUL and '.'), so names equal to, different from, and ordered around the pattern literals arise from the solver. "

CHECKS["C10"] = dict(
    level_text="The real NewFilterFS/filterFS.Walk with the real patternmatcher is executed on a tree with symbolic names for every include/exclude list inside the bounds and compared with two references written in the harness: the statement's naive evaluation and the same evaluation with parent results threaded down. Outside the class where the two references differ the walk must equal the naive reference; inside it the only tolerated deviation is the dependency's incremental semantics (a known finding); any pruning or parent-emission error differs from both and is a violation.",
    level_note="Bounds: tree X/{P, Q/{R}}, Y; lists of up to 2 include and 1 exclude (or 1 and 2) patterns from 14 templates in the quick tier, 2 and 2 in the thorough tier. " + FILTER_NOTE + "The map function is covered on its own (without patterns: with patterns the statement leaves open whether ancestors of entries the map drops are reported); follow-paths are C18. " + BASE_TRUST,
    assumptions=["the underlying view is a harness FS that implements SkipDir the way filepath.WalkDir does"],
    obligations=[
        ob("VH_C10_filter", dict(NI=2, NE=0), covers=["incremental-class", "agreeing-class"], bounds="<=2 include patterns"),
        ob("VH_C10_filter", dict(NI=0, NE=2), covers=["incremental-class", "agreeing-class"], bounds="<=2 exclude patterns"),
        ob("VH_C10_filter", dict(NI=1, NE=1), covers=["agreeing-class"], bounds="<=1 include and <=1 exclude pattern"),
        ob("VH_C10_map", {}, covers=["skipdir", "exclude"], bounds="map function only: every assignment of keep(+rewrite)/exclude/skip-dir to the 5 entries"),
        ob("VH_C10_mappat", {}, covers=["skipdir", "exclude", "lazy-skipdir", "lazy-ancestor", "done"], bounds="concrete tree a/{b/{c}, d, e/{c}}, f; <=1 include from 8 and <=1 exclude from 3 templates; map result solver-chosen on every directory and on one file"),
        ob("VH_C10_glob", dict(NI=1, NE=0), covers=["done"], bounds="wildcard templates ('*' inside a component, '**' across components), concrete names from {a, b, ab}, <=1 include"),
        ob("VH_C10_glob", dict(NI=0, NE=1), covers=["done"], bounds="wildcard templates, <=1 exclude"),
        ob("VH_C10_glob", dict(NI=1, NE=1), T, covers=["done"], bounds="wildcard templates, <=1 include and <=1 exclude"),
        ob("VH_C10_glob", dict(NI=2, NE=0), T, covers=["done"], bounds="wildcard templates, <=2 include (no mixed negation)"),
        ob("VH_C10_filter", dict(NI=2, NE=1), T, covers=["incremental-class", "agreeing-class"], bounds="<=2 include, <=1 exclude", max_paths=600000),
        ob("VH_C10_filter", dict(NI=1, NE=2), T, covers=["incremental-class", "agreeing-class"], bounds="<=1 include, <=2 exclude", max_paths=600000),
    ],
)

CHECKS["C11"] = dict(
    level_text="Two obligations decided over all inputs in the bounds: (1) walk/open agreement: for the tree and pattern classes of C10, every regular file the real filtered Walk reports is opened by the real filterFS.Open with its bytes and every hidden file is refused; (2) hard-link reset: for every link-group layout of a five-entry view and every subset hidden by an inner filter, the real WithHardlinkReset view is accepted by fresh order and hard-link validators, the first visible member of a group is a plain regular entry and later visible members link to it.",
    level_note="Bounds: (1) as C10, lists of up to 2+0, 0+2 and 1+1 patterns (quick), 2+1 (thorough); (2) view {a, b, d/, d/e, f} with every assignment of the four files to link groups and every hidden subset. The end-to-end transfer of a filtered view is covered by C01/C06/C07 separately, not jointly. " + FILTER_NOTE + BASE_TRUST,
    assumptions=["the unfiltered view is well formed: links name the first member of their group in walk order"],
    obligations=[
        ob("VH_C11_open", dict(NI=2, NE=0), covers=["reported", "hidden"], bounds="<=2 include patterns"),
        ob("VH_C11_open", dict(NI=0, NE=2), covers=["reported", "hidden"], bounds="<=2 exclude patterns"),
        ob("VH_C11_open", dict(NI=1, NE=1), covers=["reported", "hidden"], bounds="<=1 include and <=1 exclude pattern"),
        ob("VH_C11_send", {}, covers=["requested", "done"], bounds="the 5-entry views (names .a, b, d/, d/e, f; all group layouts; all hidden subsets) sent with the real Send to a reference receiver that validates the stream and requests every regular non-link entry"),
        ob("VH_C11_hardlinks", {}, covers=["link", "special-link", "hidden", "done"], bounds="5-entry view, all group layouts over regular / fifo / character-device inodes, all hidden subsets"),
        ob("VH_C11_open", dict(NI=2, NE=1), T, covers=["reported", "hidden"], bounds="<=2 include, <=1 exclude", max_paths=600000),
    ],
)

CHECKS["C16"] = dict(
    level_text="The real copy.Copy with include/exclude patterns is executed on the model file system: for every tree and pattern lists inside the bounds the set of paths created in the destination equals the set the real filtered Walk reports for the same tree (asserted unconditionally), equals the statement's naive reference selection outside the known incremental-matcher class, contains no directory without a selected descendant, and ancestors created on demand carry the source directory's mode and owner.",
    level_note="Bounds: tree X/{P, PP/ (an empty directory), Q/{R}}, Y with names drawn from {a, b, c} (siblings ascending), lists of up to 1+1 and 0+2 patterns from 12 templates over all trees, 1+2 / 2+1 (quick) and 2+2 (thorough) patterns on one concrete tree, optionally a populated destination (thorough). " + FILTER_NOTE + FS_TRUST + BASE_TRUST,
    assumptions=["names are concrete (model-FS keys), chosen by the solver from a three-letter alphabet"],
    obligations=[
        ob("VH_C16_select", dict(NI=1, NE=1), pkg=COPY, covers=["agreeing-class", "on-demand-ancestor"], bounds="<=1 include and <=1 exclude pattern"),
        ob("VH_C16_select", dict(NI=0, NE=2), pkg=COPY, covers=["agreeing-class", "incremental-class"], bounds="<=2 exclude patterns"),
        ob("VH_C16_select", dict(NI=1, NE=2, FIX=1), pkg=COPY, covers=["agreeing-class", "incremental-class", "on-demand-ancestor"], bounds="<=1 include and <=2 exclude patterns on the concrete tree a/{a, aa/, b/{a}}, b"),
        ob("VH_C16_select", dict(NI=2, NE=1, FIX=1), pkg=COPY, covers=["agreeing-class", "incremental-class", "on-demand-ancestor"], bounds="<=2 include and <=1 exclude patterns on the concrete tree"),
        ob("VH_C16_select", dict(NI=1, NE=1, FIX=1, POP=2), pkg=COPY, covers=["agreeing-class", "populated-destination", "unselected-over-existing"], bounds="<=1+1 patterns on the concrete tree, destination possibly holding the directory and an older file at the path of the source file P"),
        ob("VH_C16_select", dict(NI=2, NE=2, FIX=1), T, pkg=COPY, covers=["agreeing-class", "incremental-class"], bounds="<=2 include and <=2 exclude patterns on the concrete tree"),
        ob("VH_C16_select", dict(NI=2, NE=0), T, pkg=COPY, covers=["agreeing-class", "incremental-class"], bounds="<=2 include patterns"),
        ob("VH_C16_select", dict(NI=1, NE=1, POP=1), T, pkg=COPY, covers=["agreeing-class", "populated-destination"], bounds="populated destination"),
    ],
)

CHECKS["C17"] = dict(
    level_text="The real WriteTar walk closure and archive/tar.FileInfoHeader are executed symbolically over synthetic views; archive/tar.Writer is replaced by a recording writer that keeps the real writer's size bookkeeping. For every view inside the bounds the solver shows: members in walk order, directories with a trailing slash, type flag by entry class, link members with size 0 and no payload, a payload exactly when the entry is a regular non-link file of positive size and then exactly the view's bytes, mode/uid/gid/device numbers/mtime-to-the-second copied, xattrs as SCHILY.xattr records, and the archive closes cleanly.",
    level_note="Bounds: view {d/, d/f (0..1 quick / 0..2 thorough symbolic bytes, optional xattr), h = hard link, l = symlink, p = fifo / char / block device with symbolic 12/8-bit device numbers, q = hard link to p}; permission bits symbolic on all entries, setuid/setgid/sticky symbolic on one entry per obligation; uid/gid symbolic below 2^21; mtimes from 2 values. The byte-level USTAR/PAX encoding, long names, ids beyond the octal field and extraction are trusted standard library behaviour (natively the sampled paths are written with the real writer and re-read with archive/tar.Reader). " + BASE_TRUST,
    assumptions=["view consistency: Size of a regular non-link entry equals the length of what Open yields", "archive/tar.Writer is a recording stand-in in the symbolic run"],
    obligations=[
        ob("VH_C17_tar", dict(MAXB=1, SPECIAL=1), covers=["regular", "link", "xattr", "hardlinked-special", "done"], bounds="files <=1 byte, special bits symbolic on d/f"),
        ob("VH_C17_tar", dict(MAXB=2, SPECIAL=0), T, covers=["regular", "link", "xattr", "hardlinked-special", "done"], bounds="files <=2 bytes, special bits symbolic on d"),
        ob("VH_C17_tar", dict(MAXB=2, SPECIAL=2), T, covers=["regular", "link", "xattr", "hardlinked-special", "done"], bounds="files <=2 bytes, special bits symbolic on the third entry"),
    ],
)

CHECKS["C04"] = dict(
    level_text="Partial, as stated in DESIGN.md: the real Send (synthetic view) and the real Receive (model file system) run together under the canonical schedule with one injected fault whose kind and operation index are solver-chosen (send/recv error on either endpoint, walk error at entry k, read error inside a file, open error, content-hasher or notify callback error, context cancellation at the k-th packet). When nothing can make progress the harness tears the transport down; the engine reports a deadlock if either call still does not return. Shown for every fault placement inside the bounds: both calls return and all their goroutines end; Receive succeeds only if the destination equals the source view; Send succeeds only if the receiver's FIN reached it; a following fault-free transfer into the left-over destination converges.",
    level_note="Bounds: view {d/, d/f (1 byte), e (2 bytes)}, destination fresh or dirty, 11 fault kinds x operation index 1..8 (quick) / 1..14 (thorough). NOT covered: any schedule other than the canonical one, wall-clock bounds, SIGKILL of the receiving process (only 'abandon and re-run'), >132 pending requests, blocked/slow streams. " + FS_TRUST + BASE_TRUST,
    assumptions=["'once the stream is torn down' is modelled by the caller breaking the in-memory transport and cancelling the context when every goroutine is blocked", "one schedule only: liveness under other interleavings is not claimed"],
    obligations=[
        ob("VH_C04_faults", dict(K=8), Q, covers=["teardown-needed", "receive-success", "receive-failure", "send-success", "send-failure"], bounds="11 fault kinds x index 1..8"),
        ob("VH_C04_backlog", dict(N=300), covers=["done"], bounds="large fan-out: 300 announced directories (both 128-slot receiver queues full), hasher or notify callback failing at its 1st or 2nd call, then teardown", max_steps=30000000),
        ob("VH_C04_faults", dict(K=14), T, covers=["teardown-needed", "receive-success", "receive-failure", "send-success", "send-failure"], bounds="11 fault kinds x index 1..14"),
    ],
)

CHECKS["C08"] = dict(
    technique="bounded symbolic execution of the real go/ssa in which scheduling decisions are symbolic variables enumerated by the SMT-driven path search (delay-bounded schedule exploration around two base schedules), with vector-clock happens-before race detection on the explored schedules; counterexamples replayed natively under seeded jitter (data races: under go test -race)",
    level_text="Bounded schedule exploration of one fixed transfer (real Send over a synthetic view read in one-byte fragments, real Receive on the model file system with a dirty prior destination): which goroutine runs next is a solver-chosen value before every channel operation, select, lock/unlock, WaitGroup operation, close and go statement, and whenever the running goroutine blocks, within a delay bound around two base schedules (oldest-runnable-first and youngest-runnable-first). On every schedule inside the bound the solver-driven search shows: both calls succeed, the destination equals the source view, the set of content requests and the set of change notifications with their digests are the expected ones, neither end ever has two SendMsg or two RecvMsg calls in flight on its stream, nothing deadlocks, no goroutine is left behind, and no two accesses of the library's own code to the same variable, struct field, slice element or map (at least one a write) are unordered by happens-before (vector-clock race detection over channel, close, mutex, WaitGroup, atomic, Once, Pool and go edges).",
    level_note="PARTIAL. Bounds: one concrete scenario (d/, d/f = 2 bytes, e = 1 byte, 4 further directories; prior destination with an older e and a stale entry), stream buffer capacity 0 and 1, delay bound 1 (quick) / 2 (thorough) per base schedule. Outside the claim: races involving memory accessed only inside the standard library or dependencies on the library's behalf (the happens-before detector watches loads, stores, map operations of fsutil's own functions; e.g. a payload buffer read inside io.Pipe is not watched), races on schedules outside the bound whose accesses never both execute, schedules needing more delays than the bound, larger capacities, many multi-chunk files in flight, GOMAXPROCS (parallelism is abstracted as interleaving at visible operations). A schedule-dependent counterexample cannot be replayed deterministically on the real scheduler: the check replays it up to 150 times natively with seeded random pauses inside the harness transport and reports it only if one repetition fails or hangs (a reported data race: only if the Go race detector, go test -race, flags a race in one of the repetitions); otherwise the result is inconclusive (exit 2). " + FS_TRUST + BASE_TRUST,
    assumptions=["interleaving only at visible operations (channel, select, mutex, WaitGroup, close, go) - sufficient for outcomes when the code is free of data races, which the happens-before detector checks for the library's own accesses on the explored schedules",
                 "delay-bounded search: every schedule reachable with at most d deviations from one of two deterministic base schedules; all others are outside the claim"],
    obligations=[
        ob("VH_C08_schedules", dict(SCHED=1, SCHEDREV=0, FILES=2, CAP=1, NDIRS=4, RACE=1, EMPTY=1), Q, covers=["done"], bounds="delay bound 1 around the oldest-first base schedule, stream capacity 1"),
        ob("VH_C08_schedules", dict(SCHED=1, SCHEDREV=1, FILES=2, CAP=1, NDIRS=4, RACE=1, EMPTY=1), Q, covers=["done"], bounds="delay bound 1 around the youngest-first base schedule, stream capacity 1"),
        ob("VH_C08_schedules", dict(SCHED=1, SCHEDREV=1, FILES=2, CAP=0, NDIRS=4, RACE=1), Q, covers=["done"], bounds="delay bound 1 around the youngest-first base schedule, unbuffered stream"),
        ob("VH_C08_schedules", dict(SCHED=1, SCHEDREV=0, FILES=3, CAP=0, NDIRS=2, RACE=1, EMPTY=1), Q, covers=["done"], bounds="delay bound 1, three files, unbuffered stream"),
        ob("VH_C08_schedules", dict(SCHED=1, SCHEDREV=0, FILES=2, CAP=1, NDIRS=4, RACE=1, FAULT=1), Q, covers=["done"], bounds="the walk fails at the last entry (error report while content may be in flight), delay bound 1, oldest-first"),
        ob("VH_C08_schedules", dict(SCHED=1, SCHEDREV=1, FILES=2, CAP=1, NDIRS=4, RACE=1, FAULT=1), Q, covers=["done"], bounds="failing walk, delay bound 1, youngest-first"),
        ob("VH_C08_schedules", dict(SCHED=2, SCHEDREV=0, FILES=2, CAP=1, NDIRS=2, RACE=1, EMPTY=1), T, covers=["done"], bounds="delay bound 2 around the oldest-first base schedule", max_paths=2000000),
        ob("VH_C08_schedules", dict(SCHED=2, SCHEDREV=1, FILES=2, CAP=1, NDIRS=2, RACE=1, EMPTY=1), T, covers=["done"], bounds="delay bound 2 around the youngest-first base schedule", max_paths=2000000),
    ],
)

NOT_APPLICABLE = {
}
for _p in ["C01","C02","C03","C04","C05","C06","C07","C08","C09","C10","C11","C13","C14","C15","C16","C17","C18","C19","C20"]:
    if _p not in CHECKS:
        NOT_APPLICABLE[_p] = "harness for this property not built yet (work in progress); see DESIGN.md §8 fall-back rule"
