#!/bin/bash
# usage: control_regression.sh [id-prefix...]  applies every behaviour-preserving control patch (seeded/B*) in turn,
# runs the quick tier of the checks its meta.json names and reports the exit codes (all must be 0)
cd /verif
sel="$@"
for d in seeded/B*/; do
  id=$(basename $d)
  if [ -n "$sel" ]; then ok=0; for s in $sel; do [[ $id == $s* ]] && ok=1; done; [ $ok = 1 ] || continue; fi
  props=$(python3 -c "import json;print(' '.join(json.load(open('$d/meta.json')).get('relevant_checks',['C01','C02','C03','C04','C05','C06','C07','C09','C12','C19'])))")
  res=$(./seedtest.sh $d/patch.diff quick $props 2>&1 | grep -E "^== |INCONCLUSIVE|VIOLATION" | cut -c1-300 | tr '\n' ' ')
  echo "$id -> $res"
done
