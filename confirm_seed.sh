#!/bin/bash
# usage: confirm_seed.sh <worktree> : confirms a seeded change: compiles, suite passes, demo fails with / passes without the change
wt=$1
export GOFLAGS=-mod=mod GOPROXY=off GOSUMDB=off GOTOOLCHAIN=local
cd $wt || exit 3
git checkout -q -- . 2>/dev/null
demo=$(git ls-files --others --exclude-standard | grep zz_seed_demo_test.go | head -1)
[ -z "$demo" ] && { echo "no demo test"; exit 3; }
pkg=./$(dirname $demo)
echo "demo=$demo pkg=$pkg"
echo -n "unchanged: demo "; go test -vet=off -count=1 -run 'SeedDemo' $pkg >/tmp/cs_out.txt 2>&1 && echo PASS || { echo FAIL; tail -5 /tmp/cs_out.txt; }
git apply seed.patch || { echo "patch does not apply"; exit 3; }
echo -n "seeded: build "; go build ./... && echo ok
echo -n "seeded: existing suite "; go test -vet=off -count=1 -skip 'SeedDemo' ./... >/tmp/cs_out.txt 2>&1 && echo PASS || { echo FAIL; tail -5 /tmp/cs_out.txt; }
echo -n "seeded: demo "; go test -vet=off -count=1 -run 'SeedDemo' $pkg >/tmp/cs_out.txt 2>&1 && echo "PASS (bad)" || echo "FAIL (as intended)"
git checkout -q -- .
