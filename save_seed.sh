#!/bin/bash
# usage: save_seed.sh <id> <worktree> <property> <needs-to-manifest>
id=$1; wt=$2; prop=$3; needs="$4"
mkdir -p /verif/seeded/$id; cp $wt/seed.patch /verif/seeded/$id/patch.diff
demo=$(cd $wt && git ls-files --others --exclude-standard | grep zz_seed_demo_test.go | head -1)
mkdir -p /verif/seeded/$id/demo/$(dirname $demo); cp $wt/$demo /verif/seeded/$id/demo/$demo.txt
python3 - "$id" "$prop" "$needs" "$demo" <<'EOF'
import json,sys
id,prop,needs,demo=sys.argv[1:5]
json.dump({"id":id,"breaks_property":prop,"needs_to_manifest":needs,"demo_test":"demo/"+demo+".txt (copy into the repository as "+demo+")","confirmed":"confirm_seed.sh in a scratch worktree: unchanged tree demo PASS; with patch: go build ok, existing suite PASS (-skip SeedDemo), demo FAIL","source":"independent sub-agent given only the property text and a scratch worktree"},open("/verif/seeded/%s/meta.json"%id,"w"),indent=1)
EOF
