#!/bin/bash
# usage: seedtest.sh <patch> <tier> <property>...   applies the patch to /repo, runs the checks, reverts
patch=$(realpath $1); tier=$2; shift 2
cd /repo && git apply "$patch" || { echo "patch does not apply"; exit 3; }
trap 'git -C /repo checkout -- . ' EXIT
for p in "$@"; do
  out=$(cd /verif && ./check $p --tier $tier 2>&1); rc=$?
  echo "== $p exit=$rc"; echo "$out" | grep -E "^VIOLATION|^KNOWN-FINDING|INCONCLUSIVE|^violation in" | head -5
done
