#!/bin/bash
# usage: seed_regression.sh [seed-id-prefix...]   applies every seeded change to /repo in turn, runs the
# quick tier of the property it breaks and reports the exit code (1 = caught); /repo is reverted after each.
cd /verif
sel="$@"
for d in seeded/S*/; do
  id=$(basename $d)
  if [ -n "$sel" ]; then ok=0; for s in $sel; do [[ $id == $s* ]] && ok=1; done; [ $ok = 1 ] || continue; fi
  if python3 -c "import json,sys;sys.exit(0 if json.load(open('$d/meta.json')).get('neutralised_by') else 1)"; then echo "$id -> neutralised by a later fix in /repo (expected exit 0)"; continue; fi
  prop=$(python3 -c "import json;print(json.load(open('$d/meta.json'))['breaks_property'])")
  extra=$(python3 -c "import json;print(' '.join(json.load(open('$d/meta.json')).get('also_caught_by',[])))")
  res=$(./seedtest.sh $d/patch.diff quick $prop $extra 2>&1 | grep "^== " | tr '\n' ' ')
  echo "$id -> $res"
done
