#!/usr/bin/env python3
"""Regenerates MANIFEST.json from checks.py (claimed properties) and the not_applicable table below."""
import json, sys
sys.path.insert(0, "/verif")
import checks

NOT_APPLICABLE = checks.NOT_APPLICABLE

man = {
    "version": 1,
    "setup_cmd": "cd /verif/gosym && GOFLAGS=-mod=mod GOPROXY=off GOSUMDB=off GOTOOLCHAIN=local go build -o /verif/bin/gosym .",
    "hooks": {
        "guard": "verif",
        "enable": "none needed: harnesses and models are injected with packages.Config.Overlay / go test -overlay; no file under /repo is written by a check",
        "baseline_off_cmd": "cd /repo && GOFLAGS=-mod=mod GOPROXY=off go test -vet=off -count=1 ./...",
        "source_commits": [],
        "add_only": True,
    },
    "engines": [{
        "name": "gosym",
        "path": "/verif/gosym",
        "serves_properties": sorted(checks.CHECKS.keys()),
        "kind_free_text": "bounded symbolic executor for Go written for this task: interprets go/ssa of /repo's working tree (fsutil and its dependencies, from source) over SMT bit-vector terms, forks on solver-feasible branches, discharges assertions with z3 5.1.0 (verdicts cross-checked on z3 4.8.12 and cvc5 in the thorough tier), can make scheduling decisions solver-chosen values (delay-bounded schedule exploration) with happens-before race detection, and replays every counterexample natively with go test -overlay before reporting",
    }],
    "checks": [],
    "not_applicable": [{"property_id": k, "reason": v} for k, v in sorted(NOT_APPLICABLE.items())],
    "notes": "All claims are bounded (bounds per obligation in the evidence file); exit 2 = inconclusive (unsupported construct, unwinding failure, solver unknown, vacuous harness, counterexample that does not reproduce natively) and is never a pass.",
}
for pid in sorted(checks.CHECKS):
    c = checks.CHECKS[pid]
    man["checks"].append({
        "property_id": pid,
        "quick_cmd": "./check %s --tier quick" % pid,
        "thorough_cmd": "./check %s --tier thorough" % pid,
        "evidence_file": "/verif/evidence/%s.json" % pid,
        "replay_cmd_template": "./check %s --replay {path}" % pid,
        "engine": "gosym",
        "level_claimed": {"category": "model_checking", "text": c["level_text"], "design_ref": c.get("design_ref", "DESIGN.md §5 " + pid)},
        "level_note": c["level_note"],
        "technique": c.get("technique", "bounded symbolic execution of the real go/ssa with SMT (z3/cvc5) deciding path feasibility and assertions; counterexamples replayed natively"),
    })
json.dump(man, open("/verif/MANIFEST.json", "w"), indent=1)
print("wrote MANIFEST.json with", len(man["checks"]), "checks;", len(man["not_applicable"]), "not applicable")
