//go:build !gosym

package v

import (
	"encoding/json"
	"fmt"
	"math/rand"
	"os"
	"runtime"
	"strconv"
	"strings"
	"sync"
	"time"
	"unsafe"
)

type replay struct {
	Harness string            `json:"harness"`
	Params  map[string]int64  `json:"params"`
	Inputs  map[string]uint64 `json:"inputs"`
}

var (
	mu      sync.Mutex
	cur     replay
	cnt     map[string]int
	ocnt    map[string]int
	failed  []string
	invalid bool
)

type assumeFailed struct{}

func fresh(name string) string {
	n := cnt[name]
	cnt[name] = n + 1
	if n == 0 {
		return name
	}
	return fmt.Sprintf("%s#%d", name, n)
}

func get(name string) uint64 {
	mu.Lock()
	defer mu.Unlock()
	return cur.Inputs[fresh(name)]
}

func U8(name string) uint8   { return uint8(get(name)) }
func U16(name string) uint16 { return uint16(get(name)) }
func U32(name string) uint32 { return uint32(get(name)) }
func U64(name string) uint64 { return get(name) }
func I64(name string) int64  { return int64(get(name)) }
func I32(name string) int32  { return int32(get(name)) }
func Int(name string) int    { return int(get(name)) }
func Bool(name string) bool  { return get(name) != 0 }

func Bytes(name string, n int) []byte {
	mu.Lock()
	defer mu.Unlock()
	nm := fresh(name)
	b := make([]byte, n)
	for i := range b {
		b[i] = byte(cur.Inputs[fmt.Sprintf("%s[%d]", nm, i)])
	}
	return b
}

func String(name string, n int) string { return string(Bytes(name, n)) }

func Choose(name string, k int) int {
	x := int(get(name))
	if x < 0 || x >= k {
		invalid = true
		panic(assumeFailed{})
	}
	return x
}

func Assume(c bool) {
	if !c {
		invalid = true
		panic(assumeFailed{})
	}
}

func Assert(c bool, msg string) {
	if !c {
		mu.Lock()
		failed = append(failed, msg)
		mu.Unlock()
		fmt.Printf("VERIF-ASSERT-FAILED: %s\n", msg)
	}
}

func Cover(label string) {}

func render(val any) string {
	switch x := val.(type) {
	case bool:
		if x {
			return "true"
		}
		return "false"
	case string:
		return "s:" + fmt.Sprintf("%x", x)
	case []byte:
		parts := make([]string, len(x))
		for i, b := range x {
			parts[i] = fmt.Sprint(b)
		}
		return "[" + strings.Join(parts, ",") + "]"
	case int:
		return fmt.Sprint(uint64(x))
	case int64:
		return fmt.Sprint(uint64(x))
	case int32:
		return fmt.Sprint(uint32(x))
	case int8:
		return fmt.Sprint(uint8(x))
	case int16:
		return fmt.Sprint(uint16(x))
	case []string:
		parts := make([]string, len(x))
		for i, s := range x {
			parts[i] = render(s)
		}
		return "[" + strings.Join(parts, ",") + "]"
	case []int:
		parts := make([]string, len(x))
		for i, s := range x {
			parts[i] = render(s)
		}
		return "[" + strings.Join(parts, ",") + "]"
	case nil:
		return "nil"
	}
	return fmt.Sprint(val)
}

func Observe(name string, val any) {
	mu.Lock()
	k := name
	if n := ocnt[name]; n > 0 {
		k = fmt.Sprintf("%s#%d", name, n)
	}
	ocnt[name]++
	mu.Unlock()
	fmt.Printf("VERIF-OBSERVE: %s=%s\n", k, render(val))
}

func Symbolic() bool { return false }

func Param(name string, def int) int {
	if v, ok := cur.Params[name]; ok {
		return int(v)
	}
	return def
}

func Goroutines() int {
	// goroutines other than the test runner's; give stragglers a moment to exit
	base := baseGoroutines
	for i := 0; i < 200; i++ {
		if runtime.NumGoroutine() <= base {
			return 0
		}
		time.Sleep(5 * time.Millisecond)
	}
	return runtime.NumGoroutine() - base
}

var baseGoroutines int

// Yield natively: give every other goroutine ample time to run until it blocks (the interpreter does
// this exactly; natively a generous pause stands in for it).
func Yield()           { runtime.Gosched(); time.Sleep(150 * time.Millisecond) }
func AllocLimit(n int) {}
func HBRelease(key any) {}
func HBAcquire(key any) {}

var jitterRand *rand.Rand
var jitterMu sync.Mutex

// Jitter: with VERIF_JITTER=<seed> in the environment, pause for a pseudo-random 0..300 microseconds
// (occasionally a few milliseconds); otherwise nothing.
func Jitter() {
	seed := os.Getenv("VERIF_JITTER")
	if seed == "" {
		return
	}
	jitterMu.Lock()
	if jitterRand == nil {
		n, _ := strconv.ParseInt(seed, 10, 64)
		jitterRand = rand.New(rand.NewSource(n))
	}
	d := time.Duration(jitterRand.Intn(300)) * time.Microsecond
	if jitterRand.Intn(8) == 0 {
		d = time.Duration(1+jitterRand.Intn(4)) * time.Millisecond
	}
	jitterMu.Unlock()
	runtime.Gosched()
	time.Sleep(d)
}
func SameBacking(a, b []byte) bool {
	if cap(a) == 0 || cap(b) == 0 {
		return false
	}
	pa, pb := &a[:cap(a)][cap(a)-1], &b[:cap(b)][cap(b)-1]
	return pa == pb
}

// T is the subset of *testing.T used by RunReplay.
type T interface {
	Fatalf(format string, args ...any)
	Logf(format string, args ...any)
}

// RunReplay runs the harness named in each replay file listed in $VERIF_REPLAY (colon separated).
func RunReplay(t T, harnesses map[string]func()) {
	files := strings.Split(os.Getenv("VERIF_REPLAY"), ":")
	bad := 0
	for _, f := range files {
		if f == "" {
			continue
		}
		b, err := os.ReadFile(f)
		if err != nil {
			t.Fatalf("replay file: %v", err)
		}
		cur = replay{}
		if err := json.Unmarshal(b, &cur); err != nil {
			t.Fatalf("replay file %s: %v", f, err)
		}
		h, ok := harnesses[cur.Harness]
		if !ok {
			t.Fatalf("unknown harness %q", cur.Harness)
		}
		cnt, ocnt, failed, invalid = map[string]int{}, map[string]int{}, nil, false
		baseGoroutines = runtime.NumGoroutine()
		fmt.Printf("VERIF-REPLAY-BEGIN: %s\n", f)
		func() {
			defer func() {
				if r := recover(); r != nil {
					if _, ok := r.(assumeFailed); ok {
						return
					}
					buf := make([]byte, 4096)
					buf = buf[:runtime.Stack(buf, false)]
					fmt.Printf("VERIF-PANIC: %v\n%s\n", r, buf)
					failed = append(failed, fmt.Sprint("panic: ", r))
				}
			}()
			h()
		}()
		switch {
		case invalid:
			fmt.Printf("VERIF-REPLAY-END: %s INVALID (assumption violated)\n", f)
		case len(failed) > 0:
			fmt.Printf("VERIF-REPLAY-END: %s FAILED %d\n", f, len(failed))
			bad++
		default:
			fmt.Printf("VERIF-REPLAY-END: %s OK\n", f)
		}
	}
	if bad > 0 {
		t.Fatalf("%d replay(s) failed", bad)
	}
}

func addr(a []byte) uintptr { return uintptr(unsafe.Pointer(unsafe.SliceData(a))) }

func Overlaps(a, b []byte) bool {
	if len(a) == 0 || len(b) == 0 {
		return false
	}
	return addr(a) < addr(b)+uintptr(len(b)) && addr(b) < addr(a)+uintptr(len(a))
}

func Follows(a, b []byte) bool {
	return a != nil && b != nil && (len(b) == 0 || addr(a)+uintptr(len(a)) == addr(b))
}
func SameStart(a, b []byte) bool { return a != nil && b != nil && addr(a) == addr(b) }

func And(c ...bool) bool {
	for _, x := range c {
		if !x {
			return false
		}
	}
	return true
}

func Or(c ...bool) bool {
	for _, x := range c {
		if x {
			return true
		}
	}
	return false
}

func Implies(a, b bool) bool { return !a || b }
