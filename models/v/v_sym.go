//go:build gosym

// Package v is the harness API. Under the gosym build tag every function is intercepted by the
// symbolic executor (the bodies below are never run); natively (v_native.go) the same functions
// read the values of a replay file so that a solver model can be re-run against the real build.
package v

func U8(name string) uint8             { return 0 }
func U16(name string) uint16           { return 0 }
func U32(name string) uint32           { return 0 }
func U64(name string) uint64           { return 0 }
func I64(name string) int64            { return 0 }
func I32(name string) int32            { return 0 }
func Int(name string) int              { return 0 }
func Bool(name string) bool            { return false }
func Bytes(name string, n int) []byte  { return nil }
func String(name string, n int) string { return "" }
func Choose(name string, k int) int    { return 0 }
func Assume(c bool)                    {}
func Assert(c bool, msg string)        {}
func Cover(label string)               {}
func Observe(name string, val any)     {}
func Symbolic() bool                   { return true }
func Param(name string, def int) int   { return def }
func Goroutines() int                  { return 0 }
func Yield()                           {}

// Jitter marks a point inside a harness transport where, natively, a replay of a schedule-dependent
// counterexample pauses for a random few microseconds (the interpreter explores schedules itself).
func Jitter() {}

// HBRelease / HBAcquire let a model state a happens-before edge the real implementation provides
// (everything before the release of key happens before what follows a later acquire of key).
func HBRelease(key any) {}
func HBAcquire(key any) {}
func AllocLimit(n int)                 {}
func SameBacking(a, b []byte) bool     { return false }

// Overlaps: the two byte regions share at least one byte of one array.
func Overlaps(a, b []byte) bool { return false }

// Follows: b is empty, or b starts exactly where a ends in the same array (an empty slice taken at
// the capacity of an array does not keep a meaningful address in Go).
func Follows(a, b []byte) bool { return false }

// SameStart: a and b start at the same byte of the same array (both non-nil).
func SameStart(a, b []byte) bool { return false }

// And / Or / Not / Implies evaluate eagerly: unlike && and || they do not fork the exploration.
func And(c ...bool) bool     { return false }
func Or(c ...bool) bool      { return false }
func Implies(a, b bool) bool { return false }
