//go:build gosym

// Package m holds the environment models of the symbolic executor. A function carrying a
// "//gosym:replace <qualified name>..." directive is interpreted in place of every call to the
// named function. Every model is part of the claim of the checks that hit it (they are listed in
// the evidence under "stubs").
package m

import (
	"context"
	"hash"

	digest "github.com/opencontainers/go-digest"
	"sync"
	"time"
)

// ---------------------------------------------------------------- errors and formatting

// Leaf is an opaque error without a cause; Wrapped carries one. The text is the format string.
type Leaf struct{ Msg string }

func (e *Leaf) Error() string { return e.Msg }

type Wrapped struct {
	Msg string
	Err error
}

func (e *Wrapped) Error() string {
	if e.Msg == "" {
		return e.Err.Error()
	}
	return e.Msg + ": " + e.Err.Error()
}
func (e *Wrapped) Unwrap() error { return e.Err }
func (e *Wrapped) Cause() error  { return e.Err }

//gosym:replace github.com/pkg/errors.New errors.New
func ErrorsNew(msg string) error { return &Leaf{Msg: msg} }

//gosym:replace github.com/pkg/errors.Errorf
func PkgErrorf(format string, a ...any) error { return &Leaf{Msg: format} }

//gosym:replace github.com/pkg/errors.WithStack
func WithStack(err error) error {
	if err == nil {
		return nil
	}
	return &Wrapped{Err: err}
}

//gosym:replace github.com/pkg/errors.Wrap github.com/pkg/errors.WithMessage
func Wrap(err error, msg string) error {
	if err == nil {
		return nil
	}
	return &Wrapped{Msg: msg, Err: err}
}

//gosym:replace github.com/pkg/errors.Wrapf github.com/pkg/errors.WithMessagef
func Wrapf(err error, format string, a ...any) error {
	if err == nil {
		return nil
	}
	return &Wrapped{Msg: format, Err: err}
}

func hasVerbW(s string) bool {
	for i := 0; i+1 < len(s); i++ {
		if s[i] == '%' && s[i+1] == 'w' {
			return true
		}
	}
	return false
}

//gosym:replace fmt.Errorf
func FmtErrorf(format string, a ...any) error {
	if hasVerbW(format) {
		for _, x := range a {
			if e, ok := x.(error); ok {
				return &Wrapped{Msg: format, Err: e}
			}
		}
	}
	return &Leaf{Msg: format}
}

//gosym:replace fmt.Sprintf
func Sprintf(format string, a ...any) string { return format }

//gosym:replace fmt.Sprint fmt.Sprintln
func Sprint(a ...any) string { return "" }

//gosym:replace errors.Is github.com/pkg/errors.Is
func Is(err, target error) bool {
	if err == nil || target == nil {
		return err == target
	}
	for {
		if err == target {
			return true
		}
		if x, ok := err.(interface{ Is(error) bool }); ok && x.Is(target) {
			return true
		}
		u, ok := err.(interface{ Unwrap() error })
		if !ok {
			return false
		}
		err = u.Unwrap()
		if err == nil {
			return false
		}
	}
}

// ---------------------------------------------------------------- sync

var pools = map[*sync.Pool][]any{}

//gosym:replace (*sync.Pool).Get
func PoolGet(p *sync.Pool) any {
	l := pools[p]
	if n := len(l); n > 0 {
		x := l[n-1]
		pools[p] = l[:n-1]
		return x
	}
	if p.New != nil {
		return p.New()
	}
	return nil
}

//gosym:replace (*sync.Pool).Put
func PoolPut(p *sync.Pool, x any) {
	if x == nil {
		return
	}
	pools[p] = append(pools[p], x)
}

var onces = map[*sync.Once]bool{}

//gosym:replace (*sync.Once).Do
func OnceDo(o *sync.Once, f func()) {
	if onces[o] {
		return
	}
	onces[o] = true
	f()
}

// ---------------------------------------------------------------- context

type Ctx struct {
	parent   context.Context
	done     chan struct{}
	err      error
	children []*Ctx
}

func (c *Ctx) Deadline() (time.Time, bool) { return time.Time{}, false }
func (c *Ctx) Done() <-chan struct{}       { return c.done }
func (c *Ctx) Err() error                  { return c.err }
func (c *Ctx) Value(key any) any {
	if c.parent != nil {
		return c.parent.Value(key)
	}
	return nil
}

func (c *Ctx) cancel(err error) {
	if c.err != nil {
		return
	}
	c.err = err
	close(c.done)
	for _, ch := range c.children {
		ch.cancel(err)
	}
	c.children = nil
}

var background = &Ctx{}

//gosym:replace context.Background context.TODO
func Background() context.Context { return background }

//gosym:replace context.WithCancel
func WithCancel(parent context.Context) (context.Context, context.CancelFunc) {
	c := &Ctx{parent: parent, done: make(chan struct{})}
	if p, ok := parent.(*Ctx); ok {
		if p.err != nil {
			c.cancel(p.err)
		} else if p.done != nil {
			p.children = append(p.children, c)
		}
	} else if parent.Done() != nil {
		go func() {
			select {
			case <-parent.Done():
				c.cancel(parent.Err())
			case <-c.done:
			}
		}()
	}
	return c, func() { c.cancel(context.Canceled) }
}

// ---------------------------------------------------------------- time, process

//gosym:replace time.Now
func Now() time.Time { return time.Unix(1700000000, 0) }

//gosym:replace os.Getpid
func Getpid() int { return 4242 }

// ---------------------------------------------------------------- digests

// The SHA-256 function itself is not encoded: a digest is the byte sequence fed to the hash.
//
//gosym:replace github.com/opencontainers/go-digest.NewDigest
func NewDigest(alg digest.Algorithm, h hash.Hash) digest.Digest {
	return digest.Digest(string(alg) + ":" + string(h.Sum(nil)))
}

// ---------------------------------------------------------------- sort.Slice (reflection free)

// AnyLen and AnySwap are engine intrinsics (length / element swap of a slice held in an interface).
func AnyLen(x any) int        { return 0 }
func AnySwap(x any, i, j int) {}

//gosym:replace sort.Slice sort.SliceStable
func SortSlice(x any, less func(i, j int) bool) {
	n := AnyLen(x)
	for i := 1; i < n; i++ { // insertion sort: stable, and the harness slices are short
		for j := i; j > 0 && less(j, j-1); j-- {
			AnySwap(x, j, j-1)
		}
	}
}
