//go:build gosym

// Package m holds the environment models of the symbolic executor. A function carrying a
// "//gosym:replace <qualified name>..." directive is interpreted in place of every call to the
// named function. Every model is part of the claim of the checks that hit it (they are listed in
// the evidence under "stubs").
package m

import (
	"context"
	"hash"
	"io"

	digest "github.com/opencontainers/go-digest"
	"github.com/tonistiigi/fsutil/zz_verif/v"
	"sync"
	"time"
)

// ---------------------------------------------------------------- errors and formatting

// Leaf is an opaque error without a cause; Wrapped carries one. The text is the format string.
type Leaf struct{ Msg string }

func (e *Leaf) Error() string { return e.Msg }

type Wrapped struct {
	Msg string
	Err error
}

func (e *Wrapped) Error() string {
	if e.Msg == "" {
		return e.Err.Error()
	}
	return e.Msg + ": " + e.Err.Error()
}
func (e *Wrapped) Unwrap() error { return e.Err }
func (e *Wrapped) Cause() error  { return e.Err }

//gosym:replace github.com/pkg/errors.New errors.New
func ErrorsNew(msg string) error { return &Leaf{Msg: msg} }

//gosym:replace github.com/pkg/errors.Errorf
func PkgErrorf(format string, a ...any) error { return &Leaf{Msg: format} }

//gosym:replace github.com/pkg/errors.WithStack
func WithStack(err error) error {
	if err == nil {
		return nil
	}
	return &Wrapped{Err: err}
}

//gosym:replace github.com/pkg/errors.Wrap github.com/pkg/errors.WithMessage
func Wrap(err error, msg string) error {
	if err == nil {
		return nil
	}
	return &Wrapped{Msg: msg, Err: err}
}

//gosym:replace github.com/pkg/errors.Wrapf github.com/pkg/errors.WithMessagef
func Wrapf(err error, format string, a ...any) error {
	if err == nil {
		return nil
	}
	return &Wrapped{Msg: format, Err: err}
}

func hasVerbW(s string) bool {
	for i := 0; i+1 < len(s); i++ {
		if s[i] == '%' && s[i+1] == 'w' {
			return true
		}
	}
	return false
}

//gosym:replace fmt.Errorf
func FmtErrorf(format string, a ...any) error {
	if hasVerbW(format) {
		for _, x := range a {
			if e, ok := x.(error); ok {
				return &Wrapped{Msg: format, Err: e}
			}
		}
	}
	return &Leaf{Msg: format}
}

// Sprintf implements the verbs a path- or name-building caller would use (%s %v %d %q %x %t %c %%)
// over strings, byte slices, integers, booleans, errors and Stringers; width/precision flags are
// ignored. Error constructors above stay opaque (their text is never asserted); Sprintf results may
// be used as data, so they are computed.
//
//gosym:replace fmt.Sprintf
func Sprintf(format string, a ...any) string {
	out := make([]byte, 0, len(format)+16)
	ai := 0
	for i := 0; i < len(format); i++ {
		c := format[i]
		if c != '%' {
			out = append(out, c)
			continue
		}
		i++
		for i < len(format) && (format[i] == '+' || format[i] == '-' || format[i] == '#' || format[i] == ' ' || format[i] == '.' || (format[i] >= '0' && format[i] <= '9')) {
			i++
		}
		if i >= len(format) {
			break
		}
		verb := format[i]
		if verb == '%' {
			out = append(out, '%')
			continue
		}
		if ai >= len(a) {
			out = append(out, "%!(MISSING)"...)
			continue
		}
		out = appendArg(out, verb, a[ai])
		ai++
	}
	return string(out)
}

func appendInt(out []byte, x int64, base int) []byte {
	if x == 0 {
		return append(out, '0')
	}
	neg := x < 0
	var u uint64
	if neg {
		u = uint64(-x)
	} else {
		u = uint64(x)
	}
	return appendUint(out, u, base, neg)
}

func appendUint(out []byte, u uint64, base int, neg bool) []byte {
	if u == 0 {
		return append(out, '0')
	}
	var tmp [64]byte
	n := len(tmp)
	for u > 0 {
		n--
		tmp[n] = "0123456789abcdef"[u%uint64(base)]
		u /= uint64(base)
	}
	if neg {
		n--
		tmp[n] = '-'
	}
	return append(out, tmp[n:]...)
}

func appendArg(out []byte, verb byte, x any) []byte {
	base := 10
	if verb == 'x' {
		base = 16
	} else if verb == 'o' {
		base = 8
	}
	switch t := x.(type) {
	case string:
		if verb == 'q' {
			return append(append(append(out, '"'), t...), '"')
		}
		if verb == 'x' {
			for i := 0; i < len(t); i++ {
				out = append(out, "0123456789abcdef"[t[i]>>4], "0123456789abcdef"[t[i]&15])
			}
			return out
		}
		return append(out, t...)
	case []byte:
		if verb == 'x' {
			for i := 0; i < len(t); i++ {
				out = append(out, "0123456789abcdef"[t[i]>>4], "0123456789abcdef"[t[i]&15])
			}
			return out
		}
		return append(out, t...)
	case error:
		if t == nil {
			return append(out, "<nil>"...)
		}
		return append(out, t.Error()...)
	case interface{ String() string }:
		return append(out, t.String()...)
	case bool:
		if t {
			return append(out, "true"...)
		}
		return append(out, "false"...)
	case int:
		if verb == 'c' {
			return append(out, byte(t))
		}
		return appendInt(out, int64(t), base)
	case int64:
		return appendInt(out, t, base)
	case int32:
		if verb == 'c' {
			return append(out, byte(t))
		}
		return appendInt(out, int64(t), base)
	case int16:
		return appendInt(out, int64(t), base)
	case int8:
		return appendInt(out, int64(t), base)
	case uint:
		return appendUint(out, uint64(t), base, false)
	case uint64:
		return appendUint(out, t, base, false)
	case uint32:
		return appendUint(out, uint64(t), base, false)
	case uint16:
		return appendUint(out, uint64(t), base, false)
	case uint8:
		if verb == 'c' {
			return append(out, t)
		}
		return appendUint(out, uint64(t), base, false)
	case nil:
		return append(out, "<nil>"...)
	}
	return append(out, "%!v(unsupported)"...)
}

//gosym:replace fmt.Sprint
func Sprint(a ...any) string {
	var out []byte
	for _, x := range a {
		out = appendArg(out, 'v', x)
	}
	return string(out)
}

//gosym:replace fmt.Sprintln
func Sprintln(a ...any) string {
	var out []byte
	for i, x := range a {
		if i > 0 {
			out = append(out, ' ')
		}
		out = appendArg(out, 'v', x)
	}
	return string(append(out, '\n'))
}

// printing and logging have no effect on any property

//gosym:replace fmt.Printf log.Printf log.Fatalf log.Panicf
func Printf(format string, a ...any) {}

//gosym:replace fmt.Println fmt.Print log.Println log.Print
func Println(a ...any) {}

//gosym:replace fmt.Fprintf
func Fprintf(w io.Writer, format string, a ...any) (int, error) {
	return w.Write([]byte(Sprintf(format, a...)))
}

//gosym:replace fmt.Fprintln
func Fprintln(w io.Writer, a ...any) (int, error) { return w.Write([]byte(Sprintln(a...))) }

//gosym:replace fmt.Fprint
func Fprint(w io.Writer, a ...any) (int, error) { return w.Write([]byte(Sprint(a...))) }

//gosym:replace time.Sleep
func Sleep(d time.Duration) {}

//gosym:replace time.Since
func Since(t time.Time) time.Duration { return 0 }

// AsTarget is an engine intrinsic: if err can be assigned to *target it stores it and reports true.
func AsTarget(err error, target any) bool { return false }

//gosym:replace errors.As github.com/pkg/errors.As
func As(err error, target any) bool {
	for err != nil {
		if AsTarget(err, target) {
			return true
		}
		if x, ok := err.(interface{ As(any) bool }); ok && x.As(target) {
			return true
		}
		u, ok := err.(interface{ Unwrap() error })
		if !ok {
			return false
		}
		err = u.Unwrap()
	}
	return false
}

//gosym:replace errors.Is github.com/pkg/errors.Is
func Is(err, target error) bool {
	if err == nil || target == nil {
		return err == target
	}
	for {
		if err == target {
			return true
		}
		if x, ok := err.(interface{ Is(error) bool }); ok && x.Is(target) {
			return true
		}
		u, ok := err.(interface{ Unwrap() error })
		if !ok {
			return false
		}
		err = u.Unwrap()
		if err == nil {
			return false
		}
	}
}

// ---------------------------------------------------------------- sync

var pools = map[*sync.Pool][]any{}

//gosym:replace (*sync.Pool).Get
func PoolGet(p *sync.Pool) any {
	l := pools[p]
	if n := len(l); n > 0 {
		x := l[n-1]
		pools[p] = l[:n-1]
		v.HBAcquire(p) // a Put happens before the Get that returns the same object
		return x
	}
	if p.New != nil {
		return p.New()
	}
	return nil
}

//gosym:replace (*sync.Pool).Put
func PoolPut(p *sync.Pool, x any) {
	if x == nil {
		return
	}
	v.HBRelease(p)
	pools[p] = append(pools[p], x)
}

var onces = map[*sync.Once]bool{}

//gosym:replace (*sync.Once).Do
func OnceDo(o *sync.Once, f func()) {
	if onces[o] {
		v.HBAcquire(o) // the completion of f happens before the return of every Do
		return
	}
	onces[o] = true
	f()
	v.HBRelease(o)
}

// ---------------------------------------------------------------- context

type Ctx struct {
	parent   context.Context
	done     chan struct{}
	err      error
	children []*Ctx
}

func (c *Ctx) Deadline() (time.Time, bool) { return time.Time{}, false }
func (c *Ctx) Done() <-chan struct{}       { return c.done }
func (c *Ctx) Err() error                  { return c.err }
func (c *Ctx) Value(key any) any {
	if c.parent != nil {
		return c.parent.Value(key)
	}
	return nil
}

func (c *Ctx) cancel(err error) {
	if c.err != nil {
		return
	}
	c.err = err
	close(c.done)
	for _, ch := range c.children {
		ch.cancel(err)
	}
	c.children = nil
}

var background = &Ctx{}

//gosym:replace context.Background context.TODO
func Background() context.Context { return background }

//gosym:replace context.WithCancel
func WithCancel(parent context.Context) (context.Context, context.CancelFunc) {
	c := &Ctx{parent: parent, done: make(chan struct{})}
	if p, ok := parent.(*Ctx); ok {
		if p.err != nil {
			c.cancel(p.err)
		} else if p.done != nil {
			p.children = append(p.children, c)
		}
	} else if parent.Done() != nil {
		go func() {
			select {
			case <-parent.Done():
				c.cancel(parent.Err())
			case <-c.done:
			}
		}()
	}
	return c, func() { c.cancel(context.Canceled) }
}

// ---------------------------------------------------------------- time, process

//gosym:replace time.Now
func Now() time.Time { return time.Unix(1700000000, 0) }

//gosym:replace os.Getpid
func Getpid() int { return 4242 }

// the actor is root
//
//gosym:replace os.Getuid os.Geteuid os.Getgid os.Getegid syscall.Getuid syscall.Geteuid syscall.Getgid syscall.Getegid
func GetID() int { return 0 }

// ---------------------------------------------------------------- digests

// The SHA-256 function itself is not encoded: a digest is the byte sequence fed to the hash.
//
//gosym:replace github.com/opencontainers/go-digest.NewDigest
func NewDigest(alg digest.Algorithm, h hash.Hash) digest.Digest {
	return digest.Digest(string(alg) + ":" + string(h.Sum(nil)))
}

// ---------------------------------------------------------------- sort.Slice (reflection free)

// AnyLen and AnySwap are engine intrinsics (length / element swap of a slice held in an interface).
func AnyLen(x any) int        { return 0 }
func AnySwap(x any, i, j int) {}

//gosym:replace sort.Slice sort.SliceStable
func SortSlice(x any, less func(i, j int) bool) {
	n := AnyLen(x)
	for i := 1; i < n; i++ { // insertion sort: stable, and the harness slices are short
		for j := i; j > 0 && less(j, j-1); j-- {
			AnySwap(x, j, j-1)
		}
	}
}

// Quote stands in for strconv.Quote / strconv.QuoteToASCII: the argument between double quotes,
// without escaping. The real function branches on the printability of every rune, which multiplies
// paths over symbolic strings; in this code base quoting only ever feeds error and log text, which
// no property reads. (A property that depended on the escaping would need the real function.)
//
//gosym:replace strconv.Quote strconv.QuoteToASCII
func Quote(s string) string {
	return "\"" + s + "\""
}
