//go:build gosym

package m

import (
	"archive/tar"
	"errors"
	"io"
)

// Recording stand-in for archive/tar.Writer: the byte-level USTAR/PAX encoding is trusted standard
// library code and is not encoded; what WriteTar hands to the writer is recorded, with the
// writer's size bookkeeping (a member must receive exactly hdr.Size payload bytes).

var (
	tarLog       []TarMember
	tarRemaining int64
	tarClosed    bool
)

//gosym:replace archive/tar.NewWriter
func TarNewWriter(w io.Writer) *tar.Writer {
	tarLog, tarRemaining, tarClosed = nil, 0, false
	return new(tar.Writer)
}

//gosym:replace (*archive/tar.Writer).WriteHeader
func TarWriteHeader(tw *tar.Writer, hdr *tar.Header) error {
	if tarClosed {
		return tar.ErrWriteAfterClose
	}
	if tarRemaining > 0 {
		return errors.New("archive/tar: missed writing bytes of the previous member")
	}
	mem := TarMember{Name: hdr.Name, Typeflag: hdr.Typeflag, Linkname: hdr.Linkname, Size: hdr.Size, Mode: hdr.Mode, Uid: hdr.Uid, Gid: hdr.Gid,
		ModSec: hdr.ModTime.Unix(), Devmajor: hdr.Devmajor, Devminor: hdr.Devminor}
	for k, val := range hdr.PAXRecords {
		mem.PAXKeys = append(mem.PAXKeys, k)
		mem.PAXVals = append(mem.PAXVals, val)
	}
	tarLog = append(tarLog, mem)
	tarRemaining = 0
	if hdr.Typeflag == tar.TypeReg || hdr.Typeflag == tar.TypeRegA {
		tarRemaining = hdr.Size
	}
	return nil
}

//gosym:replace (*archive/tar.Writer).Write
func TarWrite(tw *tar.Writer, b []byte) (int, error) {
	if tarClosed {
		return 0, tar.ErrWriteAfterClose
	}
	if len(tarLog) == 0 || int64(len(b)) > tarRemaining {
		return 0, tar.ErrWriteTooLong
	}
	cur := &tarLog[len(tarLog)-1]
	cur.Payload = append(cur.Payload, b...)
	tarRemaining -= int64(len(b))
	return len(b), nil
}

//gosym:replace (*archive/tar.Writer).Close
func TarClose(tw *tar.Writer) error {
	if tarRemaining > 0 {
		return errors.New("archive/tar: missed writing bytes of the last member")
	}
	tarClosed = true
	return nil
}

//gosym:replace (*archive/tar.Writer).Flush
func TarFlush(tw *tar.Writer) error { return nil }

// TarMembers returns what was written through the recording writer (the archive bytes are ignored).
func TarMembers(archive []byte) ([]TarMember, bool) { return tarLog, tarClosed }
