//go:build gosym

package m

// Reset empties the model file system.
func Reset() {
	for k := range nodes {
		delete(nodes, k)
	}
	ops = nil
	clock = 0
	nextIno = 0
	freeInos = nil
	CopyFileRangeMode = 0
	ensureRoot()
}

// Root returns an existing directory to be used as a tree root.
func Root(name string) string {
	ensureRoot()
	p := "/" + name
	if nodes[p] == nil {
		n := newInode(KDir, 0755)
		n.Mtime = 1
		nodes[p] = n
	}
	return p
}

func put(p string, n *Inode, uid, gid uint32, mtime int64) {
	n.Uid, n.Gid, n.Mtime = uid, gid, mtime
	nodes[p] = n
}

func MkDir(p string, perm, uid, gid uint32, mtime int64) {
	put(p, newInode(KDir, perm), uid, gid, mtime)
}

func MkFile(p string, data []byte, perm, uid, gid uint32, mtime int64) {
	n := newInode(KFile, perm)
	n.Data = append([]byte(nil), data...)
	put(p, n, uid, gid, mtime)
}

func MkSymlink(p, target string, uid, gid uint32, mtime int64) {
	n := newInode(KSymlink, 0777)
	n.Target = target
	put(p, n, uid, gid, mtime)
}

func MkNode(p string, kind int, perm uint32, rdev uint64, uid, gid uint32, mtime int64) {
	n := newInode(kind, perm)
	if kind == KChar || kind == KBlock {
		n.Rdev = rdev
	}
	put(p, n, uid, gid, mtime)
}

func MkLink(oldp, newp string) {
	n := nodes[oldp]
	n.Nlink++
	nodes[newp] = n
}

func SetXattr(p, k string, v []byte) {
	n := nodes[p]
	n.XKeys = append(n.XKeys, k)
	n.XVals = append(n.XVals, append([]byte(nil), v...))
}

// SetMtime sets the mtime of an existing node (used after populating a directory).
func SetMtime(p string, mtime int64) { nodes[p].Mtime = mtime }

// Snapshot lists every node strictly below root, sorted bytewise by relative path.
func Snapshot(root string) []Entry {
	pre := root + "/"
	var keys []string
	for k := range nodes {
		if len(k) > len(pre) && k[:len(pre)] == pre {
			keys = append(keys, k)
		}
	}
	for i := 1; i < len(keys); i++ {
		for j := i; j > 0 && keys[j] < keys[j-1]; j-- {
			keys[j], keys[j-1] = keys[j-1], keys[j]
		}
	}
	out := make([]Entry, 0, len(keys))
	for _, k := range keys {
		n := nodes[k]
		e := Entry{Path: k[len(pre):], Kind: n.Kind, Perm: n.Perm, Uid: n.Uid, Gid: n.Gid, Mtime: n.Mtime, Target: n.Target, Rdev: n.Rdev, Ino: n.Ino, Nlink: n.Nlink,
			XKeys: n.XKeys, XVals: n.XVals}
		if n.Kind == KFile {
			e.Data = n.Data
		}
		out = append(out, e)
	}
	return out
}

// Exists reports whether an absolute path names a node (no symlink resolution).
func Exists(p string) bool { return nodes[p] != nil }

func Ops() []Op                { return ops }
func ClearOps()                { ops = nil }
func IsFresh(mtime int64) bool { return mtime >= nowBase }
func Native() bool             { return false }

// SnapshotAll lists every node of the file system, paths relative to the common base of all roots.
func SnapshotAll() []Entry { return Snapshot("") }

// SetOwnerMode changes permission bits and owner of an existing node.
func SetOwnerMode(p string, perm, uid, gid uint32) {
	n := nodes[p]
	n.Perm, n.Uid, n.Gid = perm&07777, uid, gid
}
