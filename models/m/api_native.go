//go:build !gosym

package m

import (
	"os"
	"path/filepath"
	"sort"
	"syscall"
	"time"

	"golang.org/x/sys/unix"
)

var (
	base      string
	resetTime int64
)

// CopyFileRangeMode is only meaningful in the model.
var CopyFileRangeMode int

func must(err error) {
	if err != nil {
		panic(err)
	}
}

func Reset() {
	if base != "" {
		os.RemoveAll(base)
	}
	syscall.Umask(0)
	d, err := os.MkdirTemp("", "verif-m")
	must(err)
	base = d
	resetTime = time.Now().UnixNano() - int64(2*time.Second)
}

func Root(name string) string {
	p := filepath.Join(base, name)
	must(os.MkdirAll(p, 0755))
	must(utimes(p, 1))
	return p
}

func utimes(p string, mtime int64) error {
	ts := unix.NsecToTimespec(mtime)
	return unix.UtimesNanoAt(unix.AT_FDCWD, p, []unix.Timespec{ts, ts}, unix.AT_SYMLINK_NOFOLLOW)
}

func finish(p string, perm, uid, gid uint32, mtime int64, chmod bool) {
	must(os.Lchown(p, int(uid), int(gid)))
	if chmod {
		must(syscall.Chmod(p, perm&07777))
	}
	must(utimes(p, mtime))
}

func MkDir(p string, perm, uid, gid uint32, mtime int64) {
	must(os.Mkdir(p, 0700))
	finish(p, perm, uid, gid, mtime, true)
}

func MkFile(p string, data []byte, perm, uid, gid uint32, mtime int64) {
	must(os.WriteFile(p, data, 0600))
	finish(p, perm, uid, gid, mtime, true)
}

func MkSymlink(p, target string, uid, gid uint32, mtime int64) {
	must(os.Symlink(target, p))
	finish(p, 0, uid, gid, mtime, false)
}

func MkNode(p string, kind int, perm uint32, rdev uint64, uid, gid uint32, mtime int64) {
	var t uint32
	switch kind {
	case KFifo:
		t = syscall.S_IFIFO
	case KChar:
		t = syscall.S_IFCHR
	case KBlock:
		t = syscall.S_IFBLK
	case KSock:
		t = syscall.S_IFSOCK
	}
	must(unix.Mknod(p, t|0600, int(rdev)))
	finish(p, perm, uid, gid, mtime, true)
}

func MkLink(oldp, newp string) { must(os.Link(oldp, newp)) }

func SetXattr(p, k string, v []byte) { must(unix.Lsetxattr(p, k, v, 0)) }

func SetMtime(p string, mtime int64) { must(utimes(p, mtime)) }

func Snapshot(root string) []Entry {
	var out []Entry
	var walk func(dir, rel string)
	walk = func(dir, rel string) {
		ents, err := os.ReadDir(dir)
		must(err)
		for _, d := range ents {
			p := filepath.Join(dir, d.Name())
			r := d.Name()
			if rel != "" {
				r = rel + "/" + d.Name()
			}
			fi, err := os.Lstat(p)
			must(err)
			st := fi.Sys().(*syscall.Stat_t)
			e := Entry{Path: r, Perm: st.Mode & 07777, Uid: st.Uid, Gid: st.Gid, Mtime: st.Mtim.Sec*1e9 + st.Mtim.Nsec, Ino: st.Ino, Nlink: int(st.Nlink)}
			switch st.Mode & syscall.S_IFMT {
			case syscall.S_IFDIR:
				e.Kind = KDir
			case syscall.S_IFREG:
				e.Kind = KFile
				e.Data, err = os.ReadFile(p)
				must(err)
			case syscall.S_IFLNK:
				e.Kind = KSymlink
				e.Target, err = os.Readlink(p)
				must(err)
			case syscall.S_IFIFO:
				e.Kind = KFifo
			case syscall.S_IFCHR:
				e.Kind = KChar
				e.Rdev = st.Rdev
			case syscall.S_IFBLK:
				e.Kind = KBlock
				e.Rdev = st.Rdev
			case syscall.S_IFSOCK:
				e.Kind = KSock
			}
			if e.Kind == KFile || e.Kind == KDir {
				buf := make([]byte, 4096)
				if n, err := unix.Llistxattr(p, buf); err == nil && n > 0 {
					for _, k := range splitNul(buf[:n]) {
						val := make([]byte, 4096)
						if vn, err := unix.Lgetxattr(p, k, val); err == nil {
							e.XKeys = append(e.XKeys, k)
							e.XVals = append(e.XVals, val[:vn])
						}
					}
				}
			}
			out = append(out, e)
			if e.Kind == KDir {
				walk(p, r)
			}
		}
	}
	walk(root, "")
	sort.Slice(out, func(i, j int) bool { return out[i].Path < out[j].Path })
	return out
}

func Exists(p string) bool {
	_, err := os.Lstat(p)
	return err == nil
}

func Ops() []Op                { return nil }
func ClearOps()                {}
func IsFresh(mtime int64) bool { return mtime >= resetTime }
func Native() bool             { return true }

// SnapshotAll lists every node below the common base of all roots.
func SnapshotAll() []Entry { return Snapshot(base) }

func splitNul(b []byte) []string {
	var out []string
	start := 0
	for i, c := range b {
		if c == 0 {
			if i > start {
				out = append(out, string(b[start:i]))
			}
			start = i + 1
		}
	}
	return out
}

// SetOwnerMode changes permission bits and owner of an existing node.
func SetOwnerMode(p string, perm, uid, gid uint32) {
	must(os.Lchown(p, int(uid), int(gid)))
	must(syscall.Chmod(p, perm&07777))
}
