//go:build !gosym

package m

import (
	"archive/tar"
	"bytes"
	"io"
	"sort"
)

// TarMembers parses a real archive with archive/tar.Reader.
func TarMembers(archive []byte) ([]TarMember, bool) {
	tr := tar.NewReader(bytes.NewReader(archive))
	var out []TarMember
	for {
		hdr, err := tr.Next()
		if err == io.EOF {
			return out, true
		}
		if err != nil {
			return out, false
		}
		mem := TarMember{Name: hdr.Name, Typeflag: hdr.Typeflag, Linkname: hdr.Linkname, Size: hdr.Size, Mode: hdr.Mode, Uid: hdr.Uid, Gid: hdr.Gid,
			ModSec: hdr.ModTime.Unix(), Devmajor: hdr.Devmajor, Devminor: hdr.Devminor}
		var keys []string
		for k := range hdr.PAXRecords {
			if len(k) > 13 && k[:13] == "SCHILY.xattr." {
				keys = append(keys, k)
			}
		}
		sort.Strings(keys)
		for _, k := range keys {
			mem.PAXKeys = append(mem.PAXKeys, k)
			mem.PAXVals = append(mem.PAXVals, hdr.PAXRecords[k])
		}
		mem.Payload, _ = io.ReadAll(tr)
		out = append(out, mem)
	}
}
