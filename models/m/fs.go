//go:build gosym

package m

import (
	"io"
	"io/fs"
	"os"
	"syscall"
	"time"

	"golang.org/x/sys/unix"
)

// ---------------------------------------------------------------- the model file system
//
// Nodes are keyed by cleaned absolute path (concrete strings). Kind, link targets, mtimes and the
// tree shape are concrete on each explored path; permission bits, uid, gid and file bytes may be
// symbolic. The actor is root with umask 0; there is no EACCES/EPERM/ENOSPC and no concurrency.

type Inode struct {
	Kind   int
	Perm   uint32 // st_mode & 07777
	Uid    uint32
	Gid    uint32
	Mtime  int64 // ns
	Rdev   uint64
	Target string
	Data   []byte
	Ino    uint64
	Nlink  int
	XKeys  []string
	XVals  [][]byte
}

var (
	nodes   = map[string]*Inode{}
	nextIno uint64
	clock   int64
	ops     []Op
	files   = map[*os.File]*handle{}
	fds     = map[int]*handle{}
	nextFd  int
)

const nowBase = int64(2000000000) * 1000000000

func now() int64 {
	clock++
	return nowBase + clock*1000000000
}

func logOp(kind, path string) { ops = append(ops, Op{kind, path}) }

// freeInos: inode numbers of deleted files, handed out again most-recent-first (real file systems
// reuse inode numbers at once, so "same device and inode" does not mean "same file as before")
var freeInos []uint64

func releaseIno(n *Inode) {
	if n != nil && n.Nlink <= 0 {
		freeInos = append(freeInos, n.Ino)
	}
}

func newInode(kind int, perm uint32) *Inode {
	if k := len(freeInos); k > 0 {
		ino := freeInos[k-1]
		freeInos = freeInos[:k-1]
		return &Inode{Kind: kind, Perm: perm & 07777, Ino: ino, Nlink: 1, Mtime: now()}
	}
	nextIno++
	return &Inode{Kind: kind, Perm: perm & 07777, Ino: nextIno + 100, Nlink: 1, Mtime: now()}
}

func ensureRoot() {
	if nodes["/"] == nil {
		n := newInode(KDir, 0755)
		n.Mtime = 1
		nodes["/"] = n
	}
}

func splitPath(p string) []string {
	var out []string
	start := 0
	for i := 0; i <= len(p); i++ {
		if i == len(p) || p[i] == '/' {
			if i > start {
				out = append(out, p[start:i])
			}
			start = i + 1
		}
	}
	return out
}

func parentOf(p string) string {
	for i := len(p) - 1; i > 0; i-- {
		if p[i] == '/' {
			return p[:i]
		}
	}
	return "/"
}

func baseOf(p string) string {
	for i := len(p) - 1; i >= 0; i-- {
		if p[i] == '/' {
			return p[i+1:]
		}
	}
	return p
}

func joinPath(dir, c string) string {
	if dir == "/" {
		return "/" + c
	}
	return dir + "/" + c
}

// resolve walks p the way the kernel does (component by component, symlinks expanded in place,
// ".." applied to the resolved location). followLast decides whether a symlink in the final
// component is followed. A missing final component below an existing directory yields (path, nil, 0).
func resolve(p string, followLast bool) (string, *Inode, syscall.Errno) {
	ensureRoot()
	if p == "" {
		return "", nil, syscall.ENOENT
	}
	comps := splitPath(p)
	cur := "/"
	hops := 0
	for i := 0; i < len(comps); i++ {
		c := comps[i]
		if c == "." {
			continue
		}
		if c == ".." {
			cur = parentOf(cur)
			continue
		}
		dirNode := nodes[cur]
		if dirNode == nil {
			return "", nil, syscall.ENOENT
		}
		if dirNode.Kind != KDir {
			return "", nil, syscall.ENOTDIR
		}
		next := joinPath(cur, c)
		n := nodes[next]
		last := true
		for _, r := range comps[i+1:] {
			if r != "." {
				last = false
			}
		}
		if n == nil {
			if last {
				return next, nil, 0
			}
			return "", nil, syscall.ENOENT
		}
		if n.Kind == KSymlink && (!last || followLast) {
			hops++
			if hops > 40 {
				return "", nil, syscall.ELOOP
			}
			t := n.Target
			if t == "" {
				return "", nil, syscall.ENOENT
			}
			rest := append([]string(nil), comps[i+1:]...)
			comps = append(splitPath(t), rest...)
			if t[0] == '/' {
				cur = "/"
			}
			i = -1
			continue
		}
		cur = next
	}
	n := nodes[cur]
	if n != nil && len(p) > 1 && p[len(p)-1] == '/' && n.Kind != KDir {
		return "", nil, syscall.ENOTDIR
	}
	return cur, n, 0
}

func pathErr(op, path string, e syscall.Errno) error {
	return &os.PathError{Op: op, Path: path, Err: e}
}

// ---------------------------------------------------------------- FileInfo / DirEntry

type FI struct {
	name string
	n    *Inode
	st   syscall.Stat_t
}

func typeBits(kind int) uint32 {
	switch kind {
	case KDir:
		return syscall.S_IFDIR
	case KSymlink:
		return syscall.S_IFLNK
	case KFifo:
		return syscall.S_IFIFO
	case KChar:
		return syscall.S_IFCHR
	case KBlock:
		return syscall.S_IFBLK
	case KSock:
		return syscall.S_IFSOCK
	}
	return syscall.S_IFREG
}

func goTypeBits(kind int) os.FileMode {
	switch kind {
	case KDir:
		return os.ModeDir
	case KSymlink:
		return os.ModeSymlink
	case KFifo:
		return os.ModeNamedPipe
	case KChar:
		return os.ModeDevice | os.ModeCharDevice
	case KBlock:
		return os.ModeDevice
	case KSock:
		return os.ModeSocket
	}
	return 0
}

func sizeOf(n *Inode) int64 {
	switch n.Kind {
	case KFile:
		return int64(len(n.Data))
	case KSymlink:
		return int64(len(n.Target))
	case KDir:
		return 4096
	}
	return 0
}

func mkFI(name string, n *Inode) *FI {
	f := &FI{name: name, n: n}
	f.st.Mode = typeBits(n.Kind) | n.Perm
	f.st.Uid, f.st.Gid = n.Uid, n.Gid
	f.st.Ino = n.Ino
	f.st.Nlink = uint64(n.Nlink)
	if n.Kind == KDir {
		f.st.Nlink = 2
	}
	f.st.Rdev = n.Rdev
	f.st.Size = sizeOf(n)
	f.st.Mtim = syscall.Timespec{Sec: n.Mtime / 1000000000, Nsec: n.Mtime % 1000000000}
	f.st.Atim = f.st.Mtim
	f.st.Ctim = f.st.Mtim
	return f
}

func (f *FI) Name() string { return f.name }
func (f *FI) Size() int64  { return f.st.Size }
func (f *FI) Mode() os.FileMode {
	p := f.st.Mode & 07777
	m := os.FileMode(p & 0777)
	m |= os.FileMode((p>>11)&1) << 23 // setuid
	m |= os.FileMode((p>>10)&1) << 22 // setgid
	m |= os.FileMode((p>>9)&1) << 20  // sticky
	return m | goTypeBits(f.n.Kind)
}
func (f *FI) ModTime() time.Time { return time.Unix(f.st.Mtim.Sec, f.st.Mtim.Nsec) }
func (f *FI) IsDir() bool        { return f.n.Kind == KDir }
func (f *FI) Sys() any           { return &f.st }

type DE struct{ fi *FI }

func (d *DE) Name() string               { return d.fi.name }
func (d *DE) IsDir() bool                { return d.fi.IsDir() }
func (d *DE) Type() fs.FileMode          { return goTypeBits(d.fi.n.Kind) }
func (d *DE) Info() (fs.FileInfo, error) { return d.fi, nil }

// unixPerm converts an os.FileMode into st_mode permission bits (branch free).
func unixPerm(m os.FileMode) uint32 {
	p := uint32(m & 0777)
	p |= uint32((m>>23)&1) << 11
	p |= uint32((m>>22)&1) << 10
	p |= uint32((m>>20)&1) << 9
	return p
}

// ---------------------------------------------------------------- os.* models

//gosym:replace os.Lstat
func Lstat(name string) (os.FileInfo, error) {
	rp, n, e := resolve(name, false)
	if e != 0 {
		return nil, pathErr("lstat", name, e)
	}
	if n == nil {
		return nil, pathErr("lstat", name, syscall.ENOENT)
	}
	return mkFI(baseOf(name), n), nilErr(rp)
}

func nilErr(string) error { return nil }

//gosym:replace os.Stat
func Stat(name string) (os.FileInfo, error) {
	_, n, e := resolve(name, true)
	if e != 0 {
		return nil, pathErr("stat", name, e)
	}
	if n == nil {
		return nil, pathErr("stat", name, syscall.ENOENT)
	}
	return mkFI(baseOf(name), n), nil
}

//gosym:replace os.SameFile
func SameFile(a, b os.FileInfo) bool {
	x, ok1 := a.(*FI)
	y, ok2 := b.(*FI)
	// as the real one: by device and inode number captured at stat time (not by object identity: a
	// number freed by a deletion may have been given to a new file since)
	return ok1 && ok2 && x != nil && y != nil && x.st.Ino == y.st.Ino
}

//gosym:replace os.Readlink
func Readlink(name string) (string, error) {
	_, n, e := resolve(name, false)
	if e != 0 {
		return "", pathErr("readlink", name, e)
	}
	if n == nil {
		return "", pathErr("readlink", name, syscall.ENOENT)
	}
	if n.Kind != KSymlink {
		return "", pathErr("readlink", name, syscall.EINVAL)
	}
	return n.Target, nil
}

// inheritGroup: an entry created below a set-group-ID directory gets that directory's group, and a
// new directory also inherits the bit (Linux semantics).
func inheritGroup(rp string, n *Inode) {
	if p := nodes[parentOf(rp)]; p != nil && rp != "/" {
		sg := (p.Perm >> 10) & 1
		n.Gid = sg*p.Gid + (1-sg)*n.Gid
		if n.Kind == KDir {
			n.Perm = n.Perm | sg<<10
		}
	}
}

func touchParent(rp string) {
	if p := nodes[parentOf(rp)]; p != nil {
		p.Mtime = now()
	}
}

//gosym:replace os.Mkdir
func Mkdir(name string, perm os.FileMode) error {
	rp, n, e := resolve(name, false)
	if e != 0 {
		return pathErr("mkdir", name, e)
	}
	if n != nil {
		return pathErr("mkdir", name, syscall.EEXIST)
	}
	nd := newInode(KDir, unixPerm(perm))
	inheritGroup(rp, nd)
	nodes[rp] = nd
	touchParent(rp)
	logOp("create", rp)
	return nil
}

func hasChildren(rp string) bool {
	pre := rp + "/"
	if rp == "/" {
		pre = "/"
	}
	for k := range nodes {
		if len(k) > len(pre) && k[:len(pre)] == pre {
			return true
		}
	}
	return false
}

func unlink(rp string) {
	n := nodes[rp]
	delete(nodes, rp)
	if n != nil {
		n.Nlink--
		releaseIno(n)
	}
	touchParent(rp)
	logOp("remove", rp)
}

//gosym:replace os.Remove
func Remove(name string) error {
	rp, n, e := resolve(name, false)
	if e != 0 {
		return pathErr("remove", name, e)
	}
	if n == nil {
		return pathErr("remove", name, syscall.ENOENT)
	}
	if n.Kind == KDir && hasChildren(rp) {
		return pathErr("remove", name, syscall.ENOTEMPTY)
	}
	if rp == "/" {
		return pathErr("remove", name, syscall.EBUSY)
	}
	unlink(rp)
	return nil
}

//gosym:replace os.RemoveAll
func RemoveAll(name string) error {
	if name == "" {
		return nil
	}
	rp, n, e := resolve(name, false)
	if e == syscall.ENOENT || (e == 0 && n == nil) {
		return nil
	}
	if e != 0 {
		return pathErr("unlinkat", name, e)
	}
	if rp == "/" {
		return pathErr("unlinkat", name, syscall.EBUSY)
	}
	pre := rp + "/"
	var victims []string
	for k := range nodes {
		if len(k) > len(pre) && k[:len(pre)] == pre {
			victims = append(victims, k)
		}
	}
	for _, k := range victims {
		if c := nodes[k]; c != nil {
			c.Nlink--
			releaseIno(c)
		}
		delete(nodes, k)
		logOp("remove", k)
	}
	unlink(rp)
	return nil
}

//gosym:replace os.Rename
func Rename(oldname, newname string) error {
	op, on, e := resolve(oldname, false)
	if e != 0 {
		return &os.LinkError{Op: "rename", Old: oldname, New: newname, Err: e}
	}
	if on == nil {
		return &os.LinkError{Op: "rename", Old: oldname, New: newname, Err: syscall.ENOENT}
	}
	np, nn, e := resolve(newname, false)
	if e != 0 {
		return &os.LinkError{Op: "rename", Old: oldname, New: newname, Err: e}
	}
	if nn != nil {
		if nn == on {
			return nil
		}
		if on.Kind == KDir {
			if nn.Kind != KDir {
				return &os.LinkError{Op: "rename", Old: oldname, New: newname, Err: syscall.ENOTDIR}
			}
			if hasChildren(np) {
				return &os.LinkError{Op: "rename", Old: oldname, New: newname, Err: syscall.ENOTEMPTY}
			}
		} else if nn.Kind == KDir {
			return &os.LinkError{Op: "rename", Old: oldname, New: newname, Err: syscall.EISDIR}
		}
		nn.Nlink--
		releaseIno(nn)
	}
	if len(np) > len(op) && np[:len(op)+1] == op+"/" {
		return &os.LinkError{Op: "rename", Old: oldname, New: newname, Err: syscall.EINVAL}
	}
	// move the node and, for directories, its subtree
	pre := op + "/"
	var moved []string
	for k := range nodes {
		if len(k) > len(pre) && k[:len(pre)] == pre {
			moved = append(moved, k)
		}
	}
	delete(nodes, op)
	nodes[np] = on
	for _, k := range moved {
		nodes[np+k[len(op):]] = nodes[k]
		delete(nodes, k)
	}
	touchParent(op)
	touchParent(np)
	logOp("remove", op)
	logOp("create", np)
	return nil
}

//gosym:replace os.Symlink
func Symlink(oldname, newname string) error {
	if oldname == "" {
		return &os.LinkError{Op: "symlink", Old: oldname, New: newname, Err: syscall.ENOENT}
	}
	rp, n, e := resolve(newname, false)
	if e != 0 {
		return &os.LinkError{Op: "symlink", Old: oldname, New: newname, Err: e}
	}
	if n != nil {
		return &os.LinkError{Op: "symlink", Old: oldname, New: newname, Err: syscall.EEXIST}
	}
	s := newInode(KSymlink, 0777)
	s.Target = oldname
	inheritGroup(rp, s)
	nodes[rp] = s
	touchParent(rp)
	logOp("create", rp)
	return nil
}

//gosym:replace os.Link
func Link(oldname, newname string) error {
	_, on, e := resolve(oldname, false)
	if e != 0 {
		return &os.LinkError{Op: "link", Old: oldname, New: newname, Err: e}
	}
	if on == nil {
		return &os.LinkError{Op: "link", Old: oldname, New: newname, Err: syscall.ENOENT}
	}
	if on.Kind == KDir {
		return &os.LinkError{Op: "link", Old: oldname, New: newname, Err: syscall.EPERM}
	}
	rp, n, e := resolve(newname, false)
	if e != 0 {
		return &os.LinkError{Op: "link", Old: oldname, New: newname, Err: e}
	}
	if n != nil {
		return &os.LinkError{Op: "link", Old: oldname, New: newname, Err: syscall.EEXIST}
	}
	nodes[rp] = on
	on.Nlink++
	touchParent(rp)
	logOp("link", rp)
	return nil
}

//gosym:replace os.Chmod
func Chmod(name string, mode os.FileMode) error {
	rp, n, e := resolve(name, true)
	if e != 0 {
		return pathErr("chmod", name, e)
	}
	if n == nil {
		return pathErr("chmod", name, syscall.ENOENT)
	}
	n.Perm = unixPerm(mode)
	logOp("chmod", rp)
	return nil
}

func chownNode(rp string, n *Inode, uid, gid int) {
	if uid != -1 {
		n.Uid = uint32(uid)
	}
	if gid != -1 {
		n.Gid = uint32(gid)
	}
	if n.Kind != KDir && n.Kind != KSymlink {
		// Linux clears S_ISUID, and S_ISGID when group-execute is set, on every chown of a non-directory
		n.Perm = n.Perm &^ (04000 | ((n.Perm>>3)&1)<<10)
	}
	if n.Kind != KDir {
		// ... and drops file capabilities (ATTR_KILL_PRIV)
		for i, k := range n.XKeys {
			if k == "security.capability" {
				n.XKeys = append(append([]string(nil), n.XKeys[:i]...), n.XKeys[i+1:]...)
				n.XVals = append(append([][]byte(nil), n.XVals[:i]...), n.XVals[i+1:]...)
				break
			}
		}
	}
	logOp("chown", rp)
}

//gosym:replace os.Lchown
func Lchown(name string, uid, gid int) error {
	rp, n, e := resolve(name, false)
	if e != 0 {
		return pathErr("lchown", name, e)
	}
	if n == nil {
		return pathErr("lchown", name, syscall.ENOENT)
	}
	chownNode(rp, n, uid, gid)
	return nil
}

//gosym:replace os.Chown
func Chown(name string, uid, gid int) error {
	rp, n, e := resolve(name, true)
	if e != 0 {
		return pathErr("chown", name, e)
	}
	if n == nil {
		return pathErr("chown", name, syscall.ENOENT)
	}
	chownNode(rp, n, uid, gid)
	return nil
}

//gosym:replace os.Chtimes
func Chtimes(name string, atime, mtime time.Time) error {
	rp, n, e := resolve(name, true)
	if e != 0 {
		return pathErr("chtimes", name, e)
	}
	if n == nil {
		return pathErr("chtimes", name, syscall.ENOENT)
	}
	n.Mtime = mtime.UnixNano()
	logOp("utimes", rp)
	return nil
}

//gosym:replace golang.org/x/sys/unix.UtimesNanoAt
func UtimesNanoAt(dirfd int, path string, ts []unix.Timespec, flags int) error {
	rp, n, e := resolve(path, flags&unix.AT_SYMLINK_NOFOLLOW == 0)
	if e != 0 {
		return e
	}
	if n == nil {
		return syscall.ENOENT
	}
	n.Mtime = ts[1].Sec*1000000000 + ts[1].Nsec
	logOp("utimes", rp)
	return nil
}

//gosym:replace golang.org/x/sys/unix.Mknod
func Mknod(path string, mode uint32, dev int) error {
	rp, n, e := resolve(path, false)
	if e != 0 {
		return e
	}
	if n != nil {
		return syscall.EEXIST
	}
	kind := KFile
	switch mode & syscall.S_IFMT {
	case syscall.S_IFIFO:
		kind = KFifo
	case syscall.S_IFCHR:
		kind = KChar
	case syscall.S_IFBLK:
		kind = KBlock
	case syscall.S_IFSOCK:
		kind = KSock
	case syscall.S_IFREG, 0:
		kind = KFile
	default:
		return syscall.EINVAL
	}
	nd := newInode(kind, mode&07777)
	if kind == KChar || kind == KBlock {
		nd.Rdev = uint64(dev)
	}
	inheritGroup(rp, nd)
	nodes[rp] = nd
	touchParent(rp)
	logOp("create", rp)
	return nil
}

//gosym:replace os.ReadDir
func ReadDir(name string) ([]os.DirEntry, error) {
	rp, n, e := resolve(name, true)
	if e != 0 {
		return nil, pathErr("open", name, e)
	}
	if n == nil {
		return nil, pathErr("open", name, syscall.ENOENT)
	}
	if n.Kind != KDir {
		return nil, pathErr("readdirent", name, syscall.ENOTDIR)
	}
	return listDir(rp), nil
}

func listDir(rp string) []os.DirEntry {
	pre := rp + "/"
	if rp == "/" {
		pre = "/"
	}
	var names []string
	for k := range nodes {
		if len(k) > len(pre) && k[:len(pre)] == pre {
			rest := k[len(pre):]
			direct := true
			for i := 0; i < len(rest); i++ {
				if rest[i] == '/' {
					direct = false
				}
			}
			if direct {
				names = append(names, rest)
			}
		}
	}
	// insertion sort, bytewise (what os.ReadDir guarantees)
	for i := 1; i < len(names); i++ {
		for j := i; j > 0 && names[j] < names[j-1]; j-- {
			names[j], names[j-1] = names[j-1], names[j]
		}
	}
	out := make([]os.DirEntry, 0, len(names))
	for _, nm := range names {
		out = append(out, &DE{mkFI(nm, nodes[pre+nm])})
	}
	return out
}

// ---------------------------------------------------------------- open files

type handle struct {
	n          *Inode
	path       string // resolved
	name       string
	pos        int
	write      bool
	read       bool
	closed     bool
	fd         int
	appendMode bool
}

//gosym:replace os.OpenFile
func OpenFile(name string, flag int, perm os.FileMode) (*os.File, error) {
	rp, n, e := resolve(name, flag&syscall.O_NOFOLLOW == 0)
	if e != 0 {
		return nil, pathErr("open", name, e)
	}
	acc := flag & (os.O_RDONLY | os.O_WRONLY | os.O_RDWR)
	wr := acc == os.O_WRONLY || acc == os.O_RDWR
	if n == nil {
		if flag&os.O_CREATE == 0 {
			return nil, pathErr("open", name, syscall.ENOENT)
		}
		n = newInode(KFile, unixPerm(perm))
		inheritGroup(rp, n)
		nodes[rp] = n
		touchParent(rp)
		logOp("create", rp)
	} else {
		if flag&os.O_CREATE != 0 && flag&os.O_EXCL != 0 {
			return nil, pathErr("open", name, syscall.EEXIST)
		}
		if n.Kind == KSymlink {
			return nil, pathErr("open", name, syscall.ELOOP)
		}
		if n.Kind == KDir && wr {
			return nil, pathErr("open", name, syscall.EISDIR)
		}
		if flag&os.O_TRUNC != 0 && n.Kind == KFile && wr {
			n.Data = nil
			n.Mtime = now()
			logOp("write", rp)
		}
	}
	if !wr && n.Kind == KFile {
		logOp("read", rp)
	}
	nextFd++
	h := &handle{n: n, path: rp, name: name, write: wr, read: acc != os.O_WRONLY, fd: nextFd + 2, appendMode: flag&os.O_APPEND != 0}
	f := new(os.File)
	files[f] = h
	fds[h.fd] = h
	return f, nil
}

//gosym:replace os.Open
func Open(name string) (*os.File, error) { return OpenFile(name, os.O_RDONLY, 0) }

//gosym:replace os.Create
func Create(name string) (*os.File, error) {
	return OpenFile(name, os.O_RDWR|os.O_CREATE|os.O_TRUNC, 0666)
}

func hnd(f *os.File) *handle {
	if f == nil {
		return nil
	}
	return files[f]
}

//gosym:replace (*os.File).Name
func FileName(f *os.File) string { return hnd(f).name }

//gosym:replace (*os.File).Fd
func FileFd(f *os.File) uintptr { return uintptr(hnd(f).fd) }

//gosym:replace (*os.File).Close
func FileClose(f *os.File) error {
	h := hnd(f)
	if h == nil {
		return os.ErrInvalid
	}
	if h.closed {
		return &os.PathError{Op: "close", Path: h.name, Err: os.ErrClosed}
	}
	h.closed = true
	delete(fds, h.fd)
	return nil
}

//gosym:replace (*os.File).Stat
func FileStat(f *os.File) (os.FileInfo, error) {
	h := hnd(f)
	if h == nil || h.closed {
		return nil, os.ErrClosed
	}
	return mkFI(baseOf(h.name), h.n), nil
}

func (h *handle) readInto(p []byte) (int, error) {
	if h.n.Kind == KDir {
		return 0, &os.PathError{Op: "read", Path: h.name, Err: syscall.EISDIR}
	}
	if len(p) == 0 {
		return 0, nil
	}
	rem := len(h.n.Data) - h.pos
	if rem <= 0 {
		return 0, io.EOF
	}
	n := copy(p, h.n.Data[h.pos:])
	h.pos += n
	return n, nil
}

//gosym:replace (*os.File).Read
func FileRead(f *os.File, p []byte) (int, error) {
	h := hnd(f)
	if h == nil || h.closed {
		return 0, os.ErrClosed
	}
	if !h.read {
		return 0, &os.PathError{Op: "read", Path: h.name, Err: syscall.EBADF}
	}
	return h.readInto(p)
}

func (h *handle) writeFrom(p []byte) (int, error) {
	if h.appendMode {
		h.pos = len(h.n.Data)
	}
	if h.pos >= len(h.n.Data) {
		h.n.Data = append(h.n.Data[:h.pos], p...)
		h.pos = len(h.n.Data)
	} else {
		for i := range p {
			if h.pos < len(h.n.Data) {
				h.n.Data[h.pos] = p[i]
			} else {
				h.n.Data = append(h.n.Data, p[i])
			}
			h.pos++
		}
	}
	if len(p) > 0 {
		h.n.Mtime = now()
		logOp("write", h.path)
	}
	return len(p), nil
}

//gosym:replace (*os.File).Write
func FileWrite(f *os.File, p []byte) (int, error) {
	h := hnd(f)
	if h == nil || h.closed {
		return 0, os.ErrClosed
	}
	if !h.write {
		return 0, &os.PathError{Op: "write", Path: h.name, Err: syscall.EBADF}
	}
	return h.writeFrom(p)
}

//gosym:replace (*os.File).WriteString
func FileWriteString(f *os.File, s string) (int, error) { return FileWrite(f, []byte(s)) }

type plainReader struct{ r io.Reader }

func (p plainReader) Read(b []byte) (int, error) { return p.r.Read(b) }

type plainWriter struct{ w io.Writer }

func (p plainWriter) Write(b []byte) (int, error) { return p.w.Write(b) }

type fileRW struct{ f *os.File }

func (x fileRW) Read(b []byte) (int, error)  { return FileRead(x.f, b) }
func (x fileRW) Write(b []byte) (int, error) { return FileWrite(x.f, b) }

//gosym:replace (*os.File).ReadFrom
func FileReadFrom(f *os.File, r io.Reader) (int64, error) {
	return io.Copy(plainWriter{fileRW{f}}, plainReader{r})
}

//gosym:replace (*os.File).WriteTo
func FileWriteTo(f *os.File, w io.Writer) (int64, error) {
	return io.Copy(plainWriter{w}, plainReader{fileRW{f}})
}

//gosym:replace (*os.File).Truncate
func FileTruncate(f *os.File, size int64) error {
	h := hnd(f)
	if h == nil || h.closed {
		return os.ErrClosed
	}
	if !h.write || size < 0 {
		return &os.PathError{Op: "truncate", Path: h.name, Err: syscall.EINVAL}
	}
	n := int(size)
	if n < len(h.n.Data) {
		h.n.Data = h.n.Data[:n]
	}
	for len(h.n.Data) < n {
		h.n.Data = append(h.n.Data, 0)
	}
	h.n.Mtime = now()
	logOp("write", h.path)
	return nil
}

//gosym:replace (*os.File).Sync
func FileSync(f *os.File) error { return nil }

//gosym:replace (*os.File).Chmod
func FileChmod(f *os.File, mode os.FileMode) error {
	h := hnd(f)
	h.n.Perm = unixPerm(mode)
	logOp("chmod", h.path)
	return nil
}

//gosym:replace (*os.File).ReadDir
func FileReadDir(f *os.File, n int) ([]os.DirEntry, error) {
	h := hnd(f)
	if h.n.Kind != KDir {
		return nil, &os.PathError{Op: "readdirent", Path: h.name, Err: syscall.ENOTDIR}
	}
	l := listDir(h.path)
	if h.pos >= len(l) {
		if n > 0 {
			return nil, io.EOF
		}
		return nil, nil
	}
	l = l[h.pos:]
	if n > 0 && len(l) > n {
		l = l[:n]
	}
	h.pos += len(l)
	return l, nil
}

//gosym:replace (*os.File).Readdirnames
func FileReaddirnames(f *os.File, n int) ([]string, error) {
	l, err := FileReadDir(f, n)
	var out []string
	for _, d := range l {
		out = append(out, d.Name())
	}
	return out, err
}

//gosym:replace (*os.File).Readdir
func FileReaddir(f *os.File, n int) ([]os.FileInfo, error) {
	l, err := FileReadDir(f, n)
	var out []os.FileInfo
	for _, d := range l {
		fi, _ := d.Info()
		out = append(out, fi)
	}
	return out, err
}

// CopyFileRangeMode selects what the modelled copy_file_range does: 0 = copies everything asked
// for, 1 = first call fails with ENOSYS (user-space fall-back), 2 = copies one byte per call.
var CopyFileRangeMode int

//gosym:replace golang.org/x/sys/unix.CopyFileRange
func CopyFileRange(rfd int, roff *int64, wfd int, woff *int64, length int, flags int) (int, error) {
	src, dst := fds[rfd], fds[wfd]
	if src == nil || dst == nil {
		return 0, syscall.EBADF
	}
	if CopyFileRangeMode == 1 {
		return 0, syscall.ENOSYS
	}
	if CopyFileRangeMode == 2 && length > 1 {
		length = 1
	}
	rem := len(src.n.Data) - src.pos
	if rem <= 0 {
		return 0, nil
	}
	if length > rem {
		length = rem
	}
	n, _ := dst.writeFrom(src.n.Data[src.pos : src.pos+length])
	src.pos += n
	return n, nil
}

// ---------------------------------------------------------------- xattrs (continuity/sysx)

//gosym:replace github.com/containerd/continuity/sysx.LListxattr
func LListxattr(path string) ([]string, error) {
	_, n, e := resolve(path, false)
	if e != 0 {
		return nil, e
	}
	if n == nil {
		return nil, syscall.ENOENT
	}
	return append([]string(nil), n.XKeys...), nil
}

//gosym:replace github.com/containerd/continuity/sysx.LGetxattr
func LGetxattr(path, attr string) ([]byte, error) {
	_, n, e := resolve(path, false)
	if e != 0 {
		return nil, e
	}
	if n == nil {
		return nil, syscall.ENOENT
	}
	for i, k := range n.XKeys {
		if k == attr {
			return append([]byte(nil), n.XVals[i]...), nil
		}
	}
	return nil, syscall.ENODATA
}

func setx(path, attr string, data []byte, follow bool) error {
	rp, n, e := resolve(path, follow)
	if e != 0 {
		return e
	}
	if n == nil {
		return syscall.ENOENT
	}
	if n.Kind == KSymlink {
		return syscall.EPERM // user.* xattrs cannot be set on symlinks
	}
	for i, k := range n.XKeys {
		if k == attr {
			n.XVals[i] = append([]byte(nil), data...)
			logOp("setxattr", rp)
			return nil
		}
	}
	n.XKeys = append(n.XKeys, attr)
	n.XVals = append(n.XVals, append([]byte(nil), data...))
	logOp("setxattr", rp)
	return nil
}

//gosym:replace github.com/containerd/continuity/sysx.LSetxattr
func LSetxattr(path, attr string, data []byte, flags int) error { return setx(path, attr, data, false) }

//gosym:replace github.com/containerd/continuity/sysx.Setxattr
func Setxattr(path, attr string, data []byte, flags int) error { return setx(path, attr, data, true) }
