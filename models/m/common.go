package m

// Declarations shared by the model back end (build tag gosym) and the native back end.

const (
	KDir = iota
	KFile
	KSymlink
	KFifo
	KChar
	KBlock
	KSock
)

// Op is one mutating (or content-reading) file-system operation with the location it resolved to.
type Op struct {
	Kind string // "create", "write", "remove", "chmod", "chown", "utimes", "link", "setxattr", "read"
	Path string
}

// Entry is one node of a tree snapshot, Path relative to the snapshot root.
type Entry struct {
	Path   string
	Kind   int
	Perm   uint32 // st_mode & 07777
	Uid    uint32
	Gid    uint32
	Mtime  int64 // ns
	Data   []byte
	Target string
	Rdev   uint64
	Ino    uint64
	Nlink  int
	XKeys  []string
	XVals  [][]byte
}

// TarMember is one archive member as seen by the harness.
type TarMember struct {
	Name     string
	Typeflag byte
	Linkname string
	Size     int64
	Mode     int64
	Uid, Gid int
	ModSec   int64
	Devmajor int64
	Devminor int64
	PAXKeys  []string
	PAXVals  []string
	Payload  []byte
}
